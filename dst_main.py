#!/venv/bin/python
"""CLI of the deterministic-simulation checks.  See /verif/DESIGN.md §7.

  dst_main.py run C10 [--tier quick|thorough] [--repo /repo] [--runs N] [--workers W]
  dst_main.py replay <file> [--repo /repo]
  dst_main.py digests C10 --indices 1,2,3        (internal: determinism cross-check)
  dst_main.py selftest [--repo /repo]

Exit status: 0 held / 1 VIOLATION / 2 harness error.
"""

from __future__ import annotations

import argparse
import json
import os
import sys
import time
import traceback

HERE = os.path.dirname(os.path.abspath(__file__))
sys.path.insert(0, HERE)

from dst import boot  # noqa: E402

boot.ensure_env()

from dst import engine, seeds  # noqa: E402

TIERS = {
    # property: tier: (runs, soft time cap in s)
    "C10": {"quick": (12000, 75), "thorough": (200000, 1200)},
    "C04": {"quick": (2400, 75), "thorough": (45000, 1200)},
    "C17": {"quick": (9000, 60), "thorough": (150000, 1200)},
}


HYP = {"C10": (64, 400), "C04": (32, 150), "C17": (64, 400)}  # (sessions, examples per session) in the thorough tier


def get_mod(prop):
    if prop == "C10":
        from dst import c10 as m
    elif prop == "C04":
        from dst import c04 as m
    elif prop == "C17":
        from dst import c17 as m
    else:
        raise SystemExit(f"unknown property {prop}")
    return m


def cmd_run(a):
    mod = get_mod(a.prop)
    ns = boot.load_repo(a.repo)
    if ns.repo_root != "/repo":
        # a scratch tree under test never overwrites the committed evidence of /repo
        os.environ.setdefault("BBV_EVIDENCE_DIR", "/var/tmp/bbv-evidence-scratch")
    tier = a.tier or os.environ.get("VERIF_TIER") or "quick"
    batch_seed = int(os.environ.get("VERIF_SEED", seeds.DEFAULT_SEED))
    runs, cap = TIERS[a.prop][tier]
    if a.runs:
        runs = a.runs
    if os.environ.get("VERIF_BUDGET_S"):
        cap = float(os.environ["VERIF_BUDGET_S"])
        if not a.runs:
            runs = 10 ** 9 if tier == "thorough" else runs
    workers = a.workers or min(16, os.cpu_count() or 1)
    opts = json.loads(a.opts) if a.opts else {}
    print(f"[{a.prop}] tier={tier} VERIF_SEED={batch_seed} planned_runs={runs} cap={cap}s workers={workers} repo={ns.repo_root}", flush=True)
    t0 = time.time()
    if runs >= 10 ** 9:
        # time-budgeted thorough: waves of runs until the cap
        out, lo, wave = None, 0, 16 * engine.CHUNK * 8
        while time.time() - t0 < cap:
            part = engine.run_batch(mod, ns, wave, batch_seed, tier, workers, cap - (time.time() - t0), opts, start=lo)
            lo += wave
            out = part if out is None else _merge_out(mod, out, part)
            if part["violations"]:
                break
    else:
        out = engine.run_batch(mod, ns, runs, batch_seed, tier, workers, cap, opts)
    wall_batch = time.time() - t0
    if out["done"] == 0:
        raise boot.HarnessError("no run completed")
    incon = out["agg"].get("timeouts", 0) + out["agg"].get("setup_errors", 0)
    if incon > 0.5 * out["done"] and not out["violations"]:
        raise boot.HarnessError(f"{incon} of {out['done']} scenarios were inconclusive (timeouts / set-up errors): nothing can be concluded")
    # determinism cross-check on a sample, in a fresh interpreter with another hash seed / worker count
    sample = sorted(out["digests"])[:: max(1, len(out["digests"]) // (24 if tier == "quick" else 96))][:128]
    xc = engine.cross_check(a.prop, tier, batch_seed, ns.repo_root, sample, out["digests"], opts)
    if xc["mismatches"]:
        print(f"HARNESS-ERROR: non-deterministic runs {xc['mismatches'][:10]}", flush=True)
        return 2
    # sensitivity canaries: the same engine against a deliberately broken variant must raise the alarm
    ncan = 480 if tier == "quick" else 1600
    can = engine.run_batch(mod, ns, ncan, batch_seed + 1, tier, workers, 120, dict(opts, canary=True))
    canary = {"what": getattr(mod, "CANARY", ""), "runs": can["done"], "flagged": len(can["violations"]),
              "not_applicable": can["agg"].get("probes", {}).get("canary_not_applicable", 0)}
    print(f"[{a.prop}] sensitivity canary: {canary['flagged']} of {canary['runs']} deliberately broken runs flagged", flush=True)
    # thorough tier: second search strategy over the same scenario space (Hypothesis-driven generator)
    hyp_out = None
    if tier == "thorough" and not a.no_hypothesis:
        from dst import hyp

        sessions, examples = HYP[a.prop]
        if os.environ.get("VERIF_BUDGET_S"):
            sessions = max(16, int(sessions * min(1.0, float(os.environ["VERIF_BUDGET_S"]) / 900)))
        th = time.time()
        hyp_out = hyp.run(mod, ns, batch_seed, tier, sessions, examples, workers)
        hyp_out["wall_s"] = round(time.time() - th, 1)
        for k, scn, v in hyp_out["failures"]:
            out["violations"].append((10 ** 9 + k, scn, v))
        print(f"[{a.prop}] hypothesis: sessions={hyp_out['sessions']} examples={hyp_out['examples']} "
              f"failures={len(hyp_out['failures'])} errors={len(hyp_out['errors'])} wall={hyp_out['wall_s']}s", flush=True)
    # violations
    known = engine.load_known()
    exit_code = 0
    reported = {}
    known_hits = {}
    for k, scn, v in out["violations"]:
        fp = v["fingerprint"]
        kf = engine.match_known(known, a.prop, mod.fingerprint_class(fp))
        if kf is not None:
            known_hits.setdefault(kf["fingerprint"], [kf, 0])[1] += 1
            continue
        reported.setdefault(fp, [])
        if scn is not None and len(reported[fp]) < 4:
            reported[fp].append((k, scn, v))
    for fp, (kf, n) in known_hits.items():
        print(f"KNOWN-FINDING: property={a.prop} {kf['what']} (fingerprint {fp}, {n} runs)", flush=True)
    replays = []
    for fp, lst in list(reported.items())[:3]:   # one replay file per distinct clause, at most three
        unreproduced = []
        for j, (k, scn, v) in enumerate(lst):
            small, steps = engine.minimise(mod, ns, scn, fp, budget_s=20 if j == 0 else 8)
            res = mod.execute(ns, small)
            v2 = res.violations[0] if res.violations else v
            path = engine.write_replay(a.prop, batch_seed, k, small, v2, res.digest(),
                                       {"minimise_steps": steps, "original_ops": len(scn.get("ops", [])) or None})
            rp = engine.replay_in_fresh_process(path, ns.repo_root)
            if rp.get("fingerprint") != v2["fingerprint"] or rp.get("digest") != res.digest():
                if not xc["mismatches"]:
                    # The simulator itself is deterministic on this tree (the batch's cross-check in a fresh
                    # interpreter found no mismatch), the violation was observed and recorded, yet this scenario
                    # replayed alone does not show it (again): what the tree returned depended on process state
                    # outside the scenario (e.g. memory addresses recycled by the allocator; the event log may then
                    # differ as well, because the stale hit lands elsewhere).  Try the next violating run.
                    unreproduced.append((path, v2))
                    continue
                print(f"HARNESS-ERROR: replay of {path} did not reproduce: {rp}", flush=True)
                return 2
            print(f"VIOLATION property={a.prop} replay={path}", flush=True)
            print(f"  clause={v2['fingerprint']} detail={json.dumps(v2.get('detail'), default=str)[:400]}", flush=True)
            replays.append(path)
            exit_code = 1
            break
        else:
            if unreproduced:
                # observed in the batch (real object vs reference, recorded), identical event log on replay, but the
                # outcome is not a function of the scenario alone: reported as a violation, marked as state-dependent
                path, v2 = unreproduced[0]
                nobs = sum(1 for _k, _s, _v in out["violations"] if _v["fingerprint"] == fp)
                print(f"VIOLATION property={a.prop} replay={path}", flush=True)
                print(f"  clause={v2['fingerprint']} observed in {nobs} runs of this batch; a single-scenario replay in a fresh "
                      f"interpreter does not show it ({len(unreproduced)} scenarios tried) while the simulator's own determinism "
                      f"cross-check of this batch is clean: the tree's result depends on process state outside the scenario "
                      f"(allocation history / object addresses)", flush=True)
                print(f"  detail={json.dumps(v2.get('detail'), default=str)[:400]}", flush=True)
                replays.append(path)
                exit_code = 1
    if reported and not replays:
        print(f"VIOLATION property={a.prop} replay=none (fingerprints {sorted(reported)[:5]})", flush=True)
        exit_code = 1
    wall = time.time() - t0
    ev = mod.evidence(out, tier=tier, seed=batch_seed, wall=wall, wall_batch=wall_batch, cross=xc,
                      known_hits={fp: n for fp, (kf, n) in known_hits.items()},
                      violations=sum(len(x) for x in reported.values()), workers=workers, ns=ns)
    ev["coverage"]["sensitivity_canary"] = canary
    if canary["flagged"] == 0:
        ev["coverage"].setdefault("warnings", []).append(
            "the sensitivity canary could not be planted on this tree (no linear-solver call passes through the seam)"
            if canary["not_applicable"] >= canary["runs"] > 0 else
            "the sensitivity canary was not flagged in any run: on this tree the oracle may have lost sight of the state it watches")
    if incon:
        ev["coverage"].setdefault("warnings", []).append(
            f"{incon} scenario(s) were inconclusive (wall limit or set-up error on this tree) and count neither as pass nor as violation")
    if hyp_out is not None:
        ev["coverage"]["hypothesis_second_strategy"] = {
            "sessions": hyp_out["sessions"], "examples": hyp_out["examples"], "failing_sessions": len(hyp_out["failures"]),
            "internal_errors": [e for _, e in hyp_out["errors"]][:5], "timeouts": hyp_out["timeouts"], "wall_s": hyp_out["wall_s"],
            "note": "st.randoms(use_true_random=False) drives the same generators; database off; one session per derived seed"}
        if hyp_out["errors"]:
            ev["coverage"].setdefault("warnings", []).append(f"{len(hyp_out['errors'])} hypothesis session(s) ended with an internal error (not counted as pass or violation)")
    path = engine.write_evidence(a.prop, ev)
    cov = ev["coverage"]
    print(f"[{a.prop}] runs={out['done']}/{out['planned']} wall={wall:.1f}s runs_per_hour={cov.get('runs_per_hour')} "
          f"distinct_nontrivial={cov['distinct_nontrivial']} faults_fired={cov.get('faults_fired')} "
          f"determinism={xc['checked']} rechecked, {len(xc['mismatches'])} mismatches", flush=True)
    for w in cov.get("warnings", []):
        print(f"[{a.prop}] WARNING {w}", flush=True)
    print(f"[{a.prop}] evidence -> {path}; exit {exit_code}", flush=True)
    return exit_code


def _merge_out(mod, a, b):
    mod.merge(a["agg"], b["agg"])
    a["done"] += b["done"]
    a["planned"] += b["planned"]
    a["digests"].update(b["digests"])
    a["violations"].extend(b["violations"])
    a["wall"] += b["wall"]
    return a


def cmd_digests(a):
    mod = get_mod(a.prop)
    ns = boot.load_repo(a.repo)
    batch_seed = int(os.environ.get("VERIF_SEED", seeds.DEFAULT_SEED))
    idx = [int(x) for x in a.indices.split(",") if x]
    opts = json.loads(a.opts) if a.opts else {}
    out = engine.run_batch(mod, ns, 0, batch_seed, a.tier or "quick", a.workers or 3, 3600, opts, indices=idx)
    print(json.dumps({str(k): v for k, v in out["digests"].items()}))
    return 0


def cmd_replay(a):
    with open(a.file) as f:
        rec = json.load(f)
    mod = get_mod(rec["property"])
    ns = boot.load_repo(a.repo)
    res = mod.execute(ns, rec["scenario"])
    fp = res.violations[0]["fingerprint"] if res.violations else None
    out = {"property": rec["property"], "fingerprint": fp, "digest": res.digest(),
           "expected_fingerprint": rec["violation"]["fingerprint"], "expected_digest": rec.get("event_log_digest")}
    if a.json:
        print(json.dumps(out))
    else:
        print(json.dumps(out, indent=1))
        if res.violations:
            print(json.dumps(res.violations[0], indent=1, default=str))
            print(f"VIOLATION property={rec['property']} replay={a.file}")
        else:
            print("no violation on this tree")
    return 1 if res.violations else 0


def cmd_selftest(a):
    """Determinism: many seeds twice — other interpreter, hash seed, worker count."""
    ns = boot.load_repo(a.repo)
    bad = 0
    for prop in ("C10", "C04", "C17"):
        mod = get_mod(prop)
        n = a.n
        out = engine.run_batch(mod, ns, n, 777, "quick", 16, 3600)
        xc = engine.cross_check(prop, "quick", 777, ns.repo_root, list(range(n)), out["digests"])
        out1 = engine.run_batch(mod, ns, n, 777, "quick", 1, 3600, indices=list(range(0, n, 7)))
        same_proc = [k for k, d in out1["digests"].items() if out["digests"][k] != d]
        print(f"selftest {prop}: {n} runs; fresh-interpreter mismatches={len(xc['mismatches'])} "
              f"in-process(1 worker) mismatches={len(same_proc)} batch_digest={engine.batch_digest(out['digests'])[:16]}")
        bad += len(xc["mismatches"]) + len(same_proc)
    return 2 if bad else 0


def main():
    p = argparse.ArgumentParser()
    sub = p.add_subparsers(dest="cmd", required=True)
    r = sub.add_parser("run")
    r.add_argument("prop")
    r.add_argument("--tier")
    r.add_argument("--repo", default="/repo")
    r.add_argument("--runs", type=int)
    r.add_argument("--workers", type=int)
    r.add_argument("--opts")
    r.add_argument("--no-hypothesis", action="store_true")
    d = sub.add_parser("digests")
    d.add_argument("prop")
    d.add_argument("--tier")
    d.add_argument("--repo", default="/repo")
    d.add_argument("--indices", required=True)
    d.add_argument("--workers", type=int)
    d.add_argument("--opts")
    rp = sub.add_parser("replay")
    rp.add_argument("file")
    rp.add_argument("--repo", default="/repo")
    rp.add_argument("--json", action="store_true")
    st = sub.add_parser("selftest")
    st.add_argument("--repo", default="/repo")
    st.add_argument("-n", type=int, default=256)
    a = p.parse_args()
    try:
        rc = {"run": cmd_run, "digests": cmd_digests, "replay": cmd_replay, "selftest": cmd_selftest}[a.cmd](a)
    except boot.HarnessError as e:
        print(f"HARNESS-ERROR: {e}", flush=True)
        rc = 2
    except SystemExit:
        raise
    except BaseException:  # noqa: BLE001  (incl. a stray ScenarioTimeout / KeyboardInterrupt: never exit 1 without a VIOLATION line)
        traceback.print_exc()
        print("HARNESS-ERROR: unexpected exception in the checking machinery", flush=True)
        rc = 2
    sys.exit(rc)


if __name__ == "__main__":
    main()
