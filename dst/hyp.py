"""Second search strategy (thorough tier): Hypothesis drives the *same* scenario generators.

``st.randoms(use_true_random=False)`` hands the generator a ``random.Random`` look-alike whose
every draw is chosen - and later shrunk - by Hypothesis.  So the scenario space, the executor and
the oracles are exactly those of the seeded engine; what changes is the search heuristic (example
mutation, bias to small / boundary draws, its own shrinker).  A failing example is re-recorded as
one of our scenario dicts and goes through the normal minimise -> replay-file -> fresh-process
replay path; Hypothesis' database is off, one session = one PRNG value = one process.
"""

from __future__ import annotations

import faulthandler
import multiprocessing
from concurrent.futures import ProcessPoolExecutor

from dst import seeds


class _Ctx:
    mod = None
    ns = None
    tier = None
    examples = 100


def _session(args):
    k, batch_seed = args
    faulthandler.dump_traceback_later(1800, exit=True)
    try:
        import hypothesis
        from hypothesis import HealthCheck, Phase, given, settings
        from hypothesis import strategies as st

        from dst import engine

        mod, ns = _Ctx.mod, _Ctx.ns
        state = {"n": 0, "fail": None, "timeouts": 0}

        def body(rnd):
            scn = mod.generate_from_rng(rnd, ns.repo_root, _Ctx.tier)
            res, timed_out = engine.execute_limited(mod, ns, scn)
            state["n"] += 1
            if timed_out:  # True (wall limit) or "error" (set-up failed): inconclusive
                state["timeouts"] += 1
                return
            if res.violations:
                state["fail"] = (scn, res.violations[0])
                raise AssertionError(res.violations[0]["fingerprint"])

        test = given(st.randoms(use_true_random=False))(body)
        test = settings(max_examples=_Ctx.examples, database=None, deadline=None, derandomize=False,
                        suppress_health_check=list(HealthCheck), phases=(Phase.generate, Phase.shrink),
                        report_multiple_bugs=False, print_blob=False)(test)
        test = hypothesis.seed(seeds.run_seed("hyp:" + mod.ID, batch_seed, k))(test)
        try:
            test()
        except AssertionError:
            pass
        except BaseException as e:  # noqa: BLE001  (hypothesis internal errors are harness errors, reported as such)
            return {"k": k, "examples": state["n"], "fail": None, "error": f"{type(e).__name__}: {e}"[:300],
                    "timeouts": state["timeouts"]}
        return {"k": k, "examples": state["n"], "fail": state["fail"], "error": None, "timeouts": state["timeouts"]}
    finally:
        faulthandler.cancel_dump_traceback_later()


def run(mod, ns, batch_seed, tier, sessions, examples, workers):
    _Ctx.mod, _Ctx.ns, _Ctx.tier, _Ctx.examples = mod, ns, tier, examples
    ctx = multiprocessing.get_context("fork")
    out = {"sessions": 0, "examples": 0, "failures": [], "errors": [], "timeouts": 0}
    with ProcessPoolExecutor(max_workers=workers, mp_context=ctx) as ex:
        for r in ex.map(_session, [(k, batch_seed) for k in range(sessions)]):
            out["sessions"] += 1
            out["examples"] += r["examples"]
            out["timeouts"] += r["timeouts"]
            if r["fail"]:
                out["failures"].append((r["k"], r["fail"][0], r["fail"][1]))
            if r["error"]:
                out["errors"].append((r["k"], r["error"]))
    return out
