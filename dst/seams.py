"""The two seams the simulator owns: the linear solver and the crash point.

Solver seam
-----------
Every linear-solver entry point reachable from ``bluebonnet`` is replaced in ``scipy``
(and ``numpy.linalg``) by a wrapper that, **only for calls whose immediate caller is a
file of the repo tree under test and only while a recording is active**, records the
system and its answer and, if a fault is planned for that call index, substitutes the
outcome.  All other callers get the original function untouched.

Crash seam
----------
``sys.settrace`` line events inside ``bluebonnet/flow/reservoir.py`` are counted; the
n-th raises ``InjectedCrash`` (a ``KeyboardInterrupt`` subclass, i.e. what Ctrl-C in a
notebook delivers).  The count is a pure function of code and inputs, so a crash point
replays exactly.
"""

from __future__ import annotations

import os
import sys
import warnings

import numpy as np

ITERATIVE = ("bicgstab", "bicg", "cg", "cgs", "gmres", "lgmres", "minres", "qmr", "gcrotmk", "tfqmr")
DIRECT_SPARSE = ("spsolve", "spsolve_triangular")
FACTOR_SPARSE = ("splu", "spilu", "factorized")
DENSE = ("solve", "solve_banded", "solveh_banded", "solve_triangular")


class InjectedCrash(KeyboardInterrupt):
    """An operation cut short at an arbitrary line (Ctrl-C)."""


class InjectedSolverError(RuntimeError):
    """The linear solver itself raised."""


class SolverBudgetExceeded(RuntimeError):
    """More than MAX_CALLS_PER_SYSTEM calls for one linear system: retry-forever guard."""


MAX_CALLS_PER_SYSTEM = 50
MAX_RECORDS = 20000


def _sysdigest(A, b):
    import hashlib

    h = hashlib.blake2b(digest_size=12)
    try:
        Ad = A.toarray() if hasattr(A, "toarray") else np.asarray(A)
        h.update(np.ascontiguousarray(Ad, dtype=float).tobytes())
    except Exception:  # noqa: BLE001
        h.update(b"?")
    h.update(np.ascontiguousarray(np.asarray(b, dtype=float)).tobytes())
    return h.hexdigest()


def _as_csr(A):
    from scipy import sparse

    if sparse.issparse(A):
        return A.tocsr().copy()
    if hasattr(A, "matvec") and not isinstance(A, np.ndarray):
        return A  # LinearOperator: kept by reference
    return sparse.csr_matrix(np.asarray(A, dtype=float))


class SolverSeam:
    def __init__(self):
        self.installed = False
        self.repo_prefix = None
        self.orig = {}
        self.active = False
        self.records = []
        self.ncalls = 0
        self.plan = {}
        self.fired = []
        self.persist = None  # (sysdigest, spec)
        self.sys_calls = {}
        self.keep_matrices = True
        self._fncache = {}

    # ------------------------------------------------------------------ install
    def install(self, repo_root):
        if self.installed:
            return
        self.repo_prefix = os.path.join(os.path.realpath(repo_root), "src", "bluebonnet") + os.sep
        import numpy.linalg as npl
        import scipy.linalg as sl
        import scipy.sparse.linalg as ssl

        mods = [ssl]
        for name in (
            "scipy.sparse.linalg._isolve",
            "scipy.sparse.linalg._isolve.iterative",
            "scipy.sparse.linalg._isolve.lgmres",
            "scipy.sparse.linalg._isolve.minres",
            "scipy.sparse.linalg._isolve._gcrotmk",
            "scipy.sparse.linalg._isolve.tfqmr",
            "scipy.sparse.linalg._dsolve",
            "scipy.sparse.linalg._dsolve.linsolve",
            "scipy.sparse.linalg.isolve",
            "scipy.sparse.linalg.dsolve",
        ):
            m = sys.modules.get(name)
            if m is None:
                try:
                    with warnings.catch_warnings():
                        warnings.simplefilter("ignore")
                        m = __import__(name, fromlist=["_"])
                except Exception:  # noqa: BLE001
                    m = None
            if m is not None:
                mods.append(m)
        wrappers = {}
        for name in ITERATIVE:
            f = getattr(ssl, name)
            self.orig[name] = f
            wrappers[id(f)] = (name, self._wrap_iterative(name, f))
        for name in DIRECT_SPARSE:
            f = getattr(ssl, name)
            self.orig[name] = f
            wrappers[id(f)] = (name, self._wrap_direct(name, f, sparse=True))
        for name in FACTOR_SPARSE:
            f = getattr(ssl, name)
            self.orig[name] = f
            wrappers[id(f)] = (name, self._wrap_factor(name, f))
        for m in mods:
            for attr, val in list(vars(m).items()):
                if id(val) in wrappers and wrappers[id(val)][0] == attr:
                    setattr(m, attr, wrappers[id(val)][1])
        for name in DENSE:
            f = getattr(sl, name)
            self.orig["scipy.linalg." + name] = f
            setattr(sl, name, self._wrap_direct("scipy.linalg." + name, f, sparse=False))
        import scipy.linalg.lapack as sll

        self._lapack_names = []
        for name in ("dgtsv", "sgtsv", "dptsv", "dgbsv", "dgesv", "dposv"):
            f = getattr(sll, name, None)
            if f is None:
                continue
            self.orig["scipy.linalg.lapack." + name] = f
            setattr(sll, name, self._wrap_lapack("scipy.linalg.lapack." + name, f))
            self._lapack_names.append(name)
        f = npl.solve
        self.orig["numpy.linalg.solve"] = f
        w = self._wrap_direct("numpy.linalg.solve", f, sparse=False)
        npl.solve = w
        self._np_solve_pair = (f, w)
        self._all_wrappers = {id(o): None for o in self.orig.values()}
        self._wrapmap = {}
        for k, o in self.orig.items():
            self._wrapmap[id(o)] = k
        self.wrappers_by_name = {
            **{wrappers[i][0]: wrappers[i][1] for i in wrappers},
            **{"scipy.linalg." + n: getattr(sl, n) for n in DENSE},
            **{"scipy.linalg.lapack." + n: getattr(sll, n) for n in self._lapack_names},
            "numpy.linalg.solve": w,
        }
        self.installed = True

    def rebind_namespace(self, module):
        """Replace references to original callables held in a module's namespace."""
        for attr, val in list(vars(module).items()):
            k = self._wrapmap.get(id(val))
            if k is not None and callable(val):
                setattr(module, attr, self.wrappers_by_name[k])

    # ------------------------------------------------------------------ control
    def begin(self, plan=None, keep_matrices=True):
        self.active = True
        self.records = []
        self.ncalls = 0
        self.plan = dict(plan or {})
        self.fired = []
        self.persist = None
        self.sys_calls = {}
        self.keep_matrices = keep_matrices

    def end(self):
        self.active = False
        recs, fired = self.records, self.fired
        self.records, self.fired, self.plan = [], [], {}
        return recs, fired

    def _site(self, depth=2):
        f = sys._getframe(depth)
        fn = f.f_code.co_filename
        real = self._fncache.get(fn)
        if real is None:
            real = os.path.realpath(fn)
            self._fncache[fn] = real
        if not real.startswith(self.repo_prefix):
            return None
        return (os.path.basename(real), f.f_code.co_name)

    def _next(self, A, b):
        idx = self.ncalls
        self.ncalls += 1
        spec = self.plan.get(idx)
        dig = None
        if self.persist is not None or (spec and spec["kind"] == "S-persistent"):
            dig = _sysdigest(A, b)
        if spec and spec["kind"] == "S-persistent":
            self.persist = (dig, spec)
        elif spec is None and self.persist is not None and self.persist[0] == dig:
            spec = self.persist[1]
        if spec is not None and dig is not None:
            n = self.sys_calls.get(dig, 0) + 1
            self.sys_calls[dig] = n
            if n > MAX_CALLS_PER_SYSTEM:
                raise SolverBudgetExceeded(f"{n} solver calls for one linear system")
        return idx, spec

    def _record(self, **kw):
        if len(self.records) < MAX_RECORDS:
            self.records.append(kw)

    # ------------------------------------------------------------------ wrappers
    def _wrap_iterative(self, name, orig):
        seam = self

        def wrapper(A, b, x0=None, **kw):
            if not seam.active:
                return orig(A, b, x0, **kw)
            site = seam._site()
            if site is None:
                return orig(A, b, x0, **kw)
            idx, spec = seam._next(A, b)
            fault = None
            if spec is None:
                x, info = orig(A, b, x0, **kw)
            else:
                fault = spec["kind"]
                seam.fired.append({"kind": fault, "call": idx, "solver": name})
                if fault == "F-solver-raise":
                    seam._record(idx=idx, solver=name, kind="iterative", site=site, fault=fault,
                                 A=None, b=None, x=None, info=None, kw=_kw(kw))
                    raise _exc(spec)
                if fault in ("S-maxiter", "S-persistent", "S-transient"):
                    kw2 = dict(kw)
                    kw2["maxiter"] = int(spec.get("iters", 1))
                    kw2.pop("callback", None)
                    x, info = orig(A, b, x0, **kw2)
                    info = max(int(info), kw2["maxiter"])
                elif fault == "S-breakdown":
                    kw2 = dict(kw)
                    kw2["maxiter"] = 1
                    kw2.pop("callback", None)
                    x, _ = orig(A, b, x0, **kw2)
                    info = int(spec.get("info", -10))
                elif fault == "S-adversarial":
                    x = _adversarial(seam, A, b, kw, spec)
                    info = 0
                elif fault == "C-perturb":
                    x, info = orig(A, b, x0, **kw)
                    x = np.asarray(x, dtype=float) * (1.0 + 1e-6)
                else:
                    raise RuntimeError(f"fault kind {fault} not applicable to iterative solver")
            seam._record(idx=idx, solver=name, kind="iterative", site=site, fault=fault,
                         A=_as_csr(A) if seam.keep_matrices else None,
                         b=np.array(b, dtype=float, copy=True), x=np.array(x, copy=True),
                         info=int(info), kw=_kw(kw))
            return x, info

        wrapper.__name__ = name
        wrapper.__wrapped__ = orig
        return wrapper

    def _wrap_direct(self, name, orig, sparse):
        seam = self

        def wrapper(A, b, *args, **kw):
            if not seam.active:
                return orig(A, b, *args, **kw)
            site = seam._site()
            if site is None:
                return orig(A, b, *args, **kw)
            was = seam.active
            idx, spec = seam._next(A, b)
            fault = None
            if spec is not None:
                fault = spec["kind"]
                seam.fired.append({"kind": fault, "call": idx, "solver": name})
                if fault == "F-solver-raise":
                    seam._record(idx=idx, solver=name, kind="direct", site=site, fault=fault,
                                 A=None, b=None, x=None, info=None, kw={})
                    raise _exc(spec)
                if fault == "S-singular":
                    from scipy.sparse.linalg import MatrixRankWarning

                    warnings.warn("Matrix is exactly singular", MatrixRankWarning, stacklevel=2)
                    x = np.full(np.shape(b), np.nan)
                    seam._record(idx=idx, solver=name, kind="direct", site=site, fault=fault,
                                 A=None, b=np.array(b, dtype=float, copy=True), x=x.copy(), info=None, kw={})
                    return x
                if fault == "C-perturb":
                    # sensitivity canary only (never used against the tree under test as a fault): a silently
                    # wrong answer, which breaks a direct solver's contract on purpose
                    seam.active = False
                    try:
                        x = np.asarray(orig(A, b, *args, **kw), dtype=float) * (1.0 + 1e-6)
                    finally:
                        seam.active = was
                    seam._record(idx=idx, solver=name, kind="direct", site=site, fault=fault, A=None,
                                 b=np.array(b, dtype=float, copy=True), x=x.copy(), info=None, kw={})
                    return x
                raise RuntimeError(f"fault kind {fault} not applicable to direct solver")
            seam.active = False  # nested scipy-internal calls are not ours
            try:
                x = orig(A, b, *args, **kw)
            finally:
                seam.active = was
            Arec = None
            if seam.keep_matrices and (sparse or name in ("scipy.linalg.solve", "numpy.linalg.solve")):
                try:
                    Arec = _as_csr(A)
                except Exception:  # noqa: BLE001
                    Arec = None
            seam._record(idx=idx, solver=name, kind="direct", site=site, fault=None, A=Arec,
                         b=np.array(b, dtype=float, copy=True), x=np.array(x, copy=True), info=None, kw={})
            return x

        wrapper.__name__ = name.rsplit(".", 1)[-1]
        wrapper.__wrapped__ = orig
        return wrapper

    def _wrap_lapack(self, name, orig):
        """LAPACK drivers (?gtsv, ?ptsv, ?gbsv, ?gesv, ?posv): the result tuple ends with (..., x, info);
        info > 0 means a singular / not positive definite matrix and an unusable x."""
        seam = self

        def wrapper(*args, **kw):
            if not seam.active:
                return orig(*args, **kw)
            site = seam._site()
            if site is None:
                return orig(*args, **kw)
            idx = seam.ncalls
            seam.ncalls += 1
            spec = seam.plan.get(idx)
            bvec = args[-1] if args else None
            if spec is not None:
                fault = spec["kind"]
                seam.fired.append({"kind": fault, "call": idx, "solver": name})
                if fault == "F-solver-raise":
                    seam._record(idx=idx, solver=name, kind="lapack", site=site, fault=fault,
                                 A=None, b=None, x=None, info=None, kw={})
                    raise _exc(spec)
                if fault == "S-lapack-info":
                    out = list(orig(*args, **kw))
                    out[-1] = int(spec.get("info_pos", 1))
                    out[-2] = np.array(bvec, dtype=float, copy=True)  # factorisation stopped: x was never computed
                    seam._record(idx=idx, solver=name, kind="lapack", site=site, fault=fault, A=None,
                                 b=np.array(bvec, dtype=float, copy=True), x=np.array(out[-2], copy=True), info=out[-1], kw={})
                    return tuple(out)
                raise RuntimeError(f"fault kind {fault} not applicable to a LAPACK driver")
            out = orig(*args, **kw)
            seam._record(idx=idx, solver=name, kind="lapack", site=site, fault=None, A=None,
                         b=None if bvec is None else np.array(bvec, dtype=float, copy=True),
                         x=np.array(out[-2], copy=True), info=int(out[-1]), kw={})
            return out

        wrapper.__name__ = name.rsplit(".", 1)[-1]
        wrapper.__wrapped__ = orig
        return wrapper

    def _wrap_factor(self, name, orig):
        seam = self

        def wrapper(A, *args, **kw):
            if not seam.active:
                return orig(A, *args, **kw)
            site = seam._site()
            if site is None:
                return orig(A, *args, **kw)
            was = seam.active
            seam.active = False
            try:
                fac = orig(A, *args, **kw)
            finally:
                seam.active = was
            Arec = _as_csr(A) if seam.keep_matrices else None

            def solve(b, *a2, **k2):
                if not seam.active:
                    return fac(b, *a2, **k2) if callable(fac) else fac.solve(b, *a2, **k2)
                idx, spec = seam._next(A, b)
                if spec is not None:
                    fault = spec["kind"]
                    seam.fired.append({"kind": fault, "call": idx, "solver": name})
                    if fault == "F-solver-raise":
                        seam._record(idx=idx, solver=name, kind="direct", site=site, fault=fault,
                                     A=None, b=None, x=None, info=None, kw={})
                        raise _exc(spec)
                    if fault == "S-singular":
                        x = np.full(np.shape(b), np.nan)
                        from scipy.sparse.linalg import MatrixRankWarning

                        warnings.warn("Matrix is exactly singular", MatrixRankWarning, stacklevel=2)
                        seam._record(idx=idx, solver=name, kind="direct", site=site, fault=fault, A=None,
                                     b=np.array(b, dtype=float, copy=True), x=x.copy(), info=None, kw={})
                        return x
                    raise RuntimeError(f"fault kind {fault} not applicable to direct solver")
                x = fac(b, *a2, **k2) if callable(fac) else fac.solve(b, *a2, **k2)
                seam._record(idx=idx, solver=name, kind="direct", site=site, fault=None, A=Arec,
                             b=np.array(b, dtype=float, copy=True), x=np.array(x, copy=True), info=None, kw={})
                return x

            if callable(fac) and not hasattr(fac, "solve"):
                return solve

            class Proxy:
                def __init__(self, inner):
                    self._inner = inner
                    self.solve = solve

                def __getattr__(self, item):
                    return getattr(self._inner, item)

            return Proxy(fac)

        wrapper.__name__ = name
        wrapper.__wrapped__ = orig
        return wrapper


def _kw(kw):
    out = {}
    for k in ("rtol", "atol", "maxiter", "tol"):
        if k in kw and kw[k] is not None:
            out[k] = float(kw[k])
    out["has_M"] = kw.get("M") is not None
    return out


def _exc(spec):
    name = spec.get("exc", "RuntimeError")
    if name == "MemoryError":
        return MemoryError("injected: allocation failed in linear solver")
    if name == "KeyboardInterrupt":
        return InjectedCrash("injected: interrupt inside linear solver")
    return InjectedSolverError("injected: linear solver failed")


def _adversarial(seam, A, b, kw, spec):
    """Loosest answer the solver's stopping rule (as requested by the caller) allows.

    scipy's rule: ||b - A x|| <= max(rtol*||b||, atol).  We return x* + A^-1 r with
    ||r|| = 0.9 * that bound, r a fixed sign pattern (no PRNG draw here).
    """
    from scipy import sparse

    spsolve = seam.orig["spsolve"]
    Ac = sparse.csc_matrix(A) if not sparse.issparse(A) else A.tocsc()
    b = np.asarray(b, dtype=float)
    rtol = float(kw.get("rtol", 1e-5))
    atol = float(kw.get("atol", 0.0))
    bound = max(rtol * float(np.linalg.norm(b)), atol)
    n = b.shape[0]
    pat = int(spec.get("pattern", 0))
    if pat == 0:
        r = np.ones(n)
    elif pat == 1:
        r = np.where(np.arange(n) % 2 == 0, 1.0, -1.0)
    elif pat == 2:
        r = np.zeros(n)
        r[min(n - 1, 1)] = 1.0
    else:
        r = np.zeros(n)
        r[-1] = 1.0
    r = r / np.linalg.norm(r) * 0.9 * bound
    was = seam.active
    seam.active = False
    try:
        xs = spsolve(Ac, b)
        d = spsolve(Ac, r)
    finally:
        seam.active = was
    return xs - d  # b - A(xs - d) = r


SOLVER = SolverSeam()


class CrashSeam:
    def __init__(self):
        self.path = None
        self.n = 0
        self.crash_at = None
        self._fncache = {}

    def configure(self, path):
        self.path = os.path.realpath(path)

    def _global(self, frame, event, arg):
        fn = frame.f_code.co_filename
        ok = self._fncache.get(fn)
        if ok is None:
            ok = os.path.realpath(fn) == self.path
            self._fncache[fn] = ok
        return self._local if ok else None

    def _local(self, frame, event, arg):
        if event == "line":
            self.n += 1
            if self.n == self.crash_at:
                self.where = (frame.f_code.co_name, frame.f_lineno)
                raise InjectedCrash(f"injected crash at line event {self.n} ({frame.f_code.co_name}:{frame.f_lineno})")
        return self._local

    def run(self, fn, crash_at=None):
        """Run fn() counting line events in reservoir.py; raise at the crash_at-th.

        Returns (result, n_events).  On crash the InjectedCrash propagates; the number
        of events seen so far is in ``self.n`` and the location in ``self.where``.
        """
        self.n = 0
        self.crash_at = crash_at
        self.where = None
        old = sys.gettrace()
        sys.settrace(self._global)
        try:
            res = fn()
        finally:
            sys.settrace(old)
        return res, self.n


CRASH = CrashSeam()
