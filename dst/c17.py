"""C17 — time-shift invariance, equivalent schedule forms, and the call protocol.

Five clause families, each a short seeded scenario on fresh objects (optionally preceded
by 0-2 rejected calls so that the protocol clauses are also exercised on an object whose
last call failed):

 1 shift      simulate(t) vs simulate(t+c) on the 2^-20 lattice  -> field + both recoveries equal
 2 const      simulate(t) vs simulate(t, full(n, p_f))            -> identical
 3 rejectlen  simulate(t, s) with len(s) != len(t)                -> raises, also as 2nd/3rd call
 4 norun      recovery / interpolator with no completed simulate  -> raise
 5 interp     interpolator reproduces recovery at the nodes, 0 before, last after
"""

from __future__ import annotations

import hashlib
import warnings

import numpy as np

from dst import seeds, world

ID = "C17"
LEVEL = "exploration"
Q = 2.0 ** -20
KINDS = ("shift", "const", "rejectlen", "norun", "interp")


def generate(rng, repo_root, opts=None):
    kind = rng.choice(KINDS)
    fs = world.draw_fluid_spec(rng, repo_root)
    if kind == "const":
        # the constant schedule is given either as the simulate argument (single-phase) or as an array
        # frac-face pressure at construction (dataclass field `float | NDArray`, every class)
        cls = rng.choice(["SinglePhaseReservoir", "SinglePhaseReservoir", "IdealReservoir", "TwoPhaseReservoir"])
    elif kind == "rejectlen":
        cls = rng.choice(["SinglePhaseReservoir"])
    else:
        cls = rng.choice(["IdealReservoir", "SinglePhaseReservoir", "SinglePhaseReservoir", "TwoPhaseReservoir"])
    nx = rng.choice([3, 4, 5, 8, 12, 20, 30, 60])
    obj = {"cls": cls, "nx": nx, "pf": world.draw_pf(rng, fs), "pi": fs["p_i"], "fluid": 0}
    if cls == "IdealReservoir" and rng.random() < 0.3:
        obj["fluid"] = None
    g = world.draw_grid(rng, lattice=True, nmax=60,
                        families=world.GRID_FAMILIES + ("integer",) if kind in ("shift", "interp") else
                        tuple(f for f in world.GRID_FAMILIES if f != "integer"))
    if kind == "interp" and rng.random() < 0.02:
        # a long run (> 4096 points): anything that thins, caps or chunks long histories shows here
        n_long = rng.choice([4097, 4500, 6000])
        T = 10.0 ** rng.uniform(-1, 1.5)
        tl = (np.linspace(0, np.sqrt(T), n_long) ** 2 if rng.random() < 0.5 else np.linspace(0, T, n_long))
        tl = np.round(tl / Q) * Q
        for i in range(1, len(tl)):
            if tl[i] <= tl[i - 1]:
                tl[i] = tl[i - 1] + Q
        g = {"family": "long", "t": [float(v) for v in tl]}
        obj["nx"] = rng.choice([3, 4, 5])
    scn = {"property": ID, "kind": kind, "fluids": [fs], "object": obj, "grid": g}
    n = len(g["t"])
    # 0-2 rejected calls first (only meaningful for the protocol clauses)
    pre = []
    if kind in ("rejectlen", "norun", "interp", "shift", "const") and rng.random() < 0.4:
        for _ in range(rng.choice([1, 1, 2])):
            if cls == "SinglePhaseReservoir":
                how = rng.choice(["len", "range", "type"])
            else:
                how = "type"
            if how == "len":
                m = rng.choice([0, max(0, n - 1), n + 1, 2 * n])
                pre.append({"how": "len", "v": [float(obj["pf"])] * m})
            elif how == "range":
                v = [float(obj["pf"])] * n
                v[rng.randrange(n)] = float(fs["_p_hi"] * 2 + 10)
                pre.append({"how": "range", "v": v})
            else:
                pre.append({"how": "type", "arg": "list" if cls == "IdealReservoir" else rng.choice(["none", "scalar"])})
    scn["pre_rejected"] = pre
    if kind == "shift":
        k = rng.choice([1, 3, 2 ** 10, 2 ** 19, 2 ** 20, 5 * 2 ** 20 + 7, 2 ** 29 + 1, rng.randrange(1, 2 ** 30),
                        2 ** 35, 2 ** 37 + 2 ** 20, 2 ** 40])   # shifts up to ~1e6 time units
        sgn = -1 if rng.random() < 0.3 else 1
        scn["shift"] = sgn * k * Q
        tt = g["t"]
        u = rng.random()
        if u < 0.12 and tt[0] != 0.0:
            scn["shift"] = -tt[0]                       # the shifted grid starts exactly at 0
        elif u < 0.2 and len(tt) > 2:
            scn["shift"] = -tt[rng.randrange(1, len(tt) - 1)]   # some interior time becomes exactly 0
        elif u < 0.26:
            scn["shift"] = -(0.5 * (tt[0] + tt[-1])) // Q * Q   # times straddle 0
        if scn["shift"] == 0.0:
            scn["shift"] = Q
        if cls == "SinglePhaseReservoir" and rng.random() < 0.35:
            scn["sched"] = world.draw_schedule(rng, fs, obj["pf"], n)
    elif kind == "const":
        if rng.random() < 0.12 and fs["p_i"] < fs["_p_hi"]:
            # a constant frac-face pressure ABOVE the initial pressure (injection): still a constant schedule
            obj["pf"] = round(min(fs["_p_hi"], fs["p_i"] + rng.uniform(0.02, 0.2) * (fs["p_i"] - fs["_p_lo"])), 3)
        scn["const_form"] = "simulate_arg" if (cls == "SinglePhaseReservoir" and rng.random() < 0.6) else "ctor_array"
        if scn["const_form"] == "simulate_arg" and rng.random() < 0.5:
            # the object given the schedule is configured with ANOTHER scalar: the schedule's value must win
            scn["other_pf"] = world.draw_pf(rng, fs)
    elif kind == "rejectlen":
        scn["bad_len"] = rng.choice([0, max(0, n - 1), n + 1, 2 * n, 1, n + 7])
        if scn["bad_len"] == n:
            scn["bad_len"] = n + 1
        scn["completed_before"] = rng.choice([0, 0, 1, 2])
        scn["sched_kind"] = rng.choice(["const", "random", "nan_padded"])
        if scn["sched_kind"] == "nan_padded":
            scn["bad_len"] = n + rng.choice([1, 2, 5, n])   # over-long, with exactly the surplus as NaN readings
        scn["sched_seed"] = rng.randrange(2 ** 30)
    elif kind == "norun":
        scn["reads"] = [rng.choice(["rf", "rfd", "interp", "rf_time"]) for _ in range(rng.choice([1, 2, 3]))]
    elif kind == "interp":
        # 0-4 recovery calls of random modes before the interpolator is built: it must read back the last one
        scn["modes"] = [rng.choice(["flux", "density"]) for _ in range(rng.choice([0, 1, 1, 2, 3, 4]))]
        tt = g["t"]
        u = rng.random()
        if u < 0.25:
            scn["grid_shift"] = -(tt[-1] + rng.choice([1, 3, 1000])) // Q * Q        # all times negative
        elif u < 0.45:
            scn["grid_shift"] = -(0.5 * (tt[0] + tt[-1])) // Q * Q                  # straddles zero
        elif u < 0.55:
            scn["grid_shift"] = float(rng.choice([1, 1000, 2 ** 12]))
        else:
            scn["grid_shift"] = 0.0
        if cls == "SinglePhaseReservoir" and rng.random() < 0.5:
            # schedules with shut-in / build-up make recovery non-monotone: fill values and read-back are then
            # distinguishable from "min/max of the curve"
            scn["sched"] = world.draw_schedule(rng, fs, obj["pf"], n, kind=rng.choice(
                ["buildup", "buildup", "shutin", "random", "rise", "step_down", None]))
        scn["interp_first"] = rng.random() < 0.4   # an interpolator is also built BEFORE the recovery calls
    # Representation swarm (drawn last, so the rest of every seeded scenario is what it was before): the same
    # VALUES handed over in another legitimate container - read-only or non-contiguous arrays, lists, tuples,
    # a pandas Series, a numpy scalar / 0-d array for the configured pressure.  Results must not depend on it.
    if rng.random() < 0.3:
        rep = {}
        t_forms = ["readonly", "strided"] + ([] if cls == "IdealReservoir" else ["list"])
        if rng.random() < 0.6:
            rep["t"] = rng.choice(t_forms)
        if rng.random() < 0.6:
            rep["sched"] = rng.choice(["list", "tuple", "readonly", "strided", "series"])
        if rng.random() < 0.4:
            rep["pf"] = rng.choice(["np.float64", "0d", "int"])
        scn["repr"] = rep
    if kind == "interp" and rng.random() < 0.25:
        # some of the recovery calls name an explicit ``time`` (documented optional argument): whatever a tree
        # does with it, the interpolator must still read back recovery AT THE SIMULATED TIMES
        scn["modes"] = [m + rng.choice(["", "@same", "@halfstep", "@shorter", "@longer"]) for m in (scn["modes"] or ["flux"])]
    if kind == "const" and rng.random() < 0.15:
        # the scalar setting is ASSIGNED after construction (public dataclass field), the object having been
        # built with another scalar: values derived from the field at construction time must not survive
        scn["reassign_from_pf"] = world.draw_pf(rng, fs)
    return scn


def generate_from_rng(rng, repo_root, tier="thorough", opts=None):
    return generate(rng, repo_root, opts)


def scenario_for(k, batch_seed, tier, repo_root, opts=None):
    scn = generate(seeds.rng_for(ID, batch_seed, k), repo_root, opts)
    if (opts or {}).get("canary"):
        scn["canary"] = True
    return scn


CANARY = "in shift scenarios the 'shifted' grid additionally has its first increment stretched by 0.1 %: the pair must be reported as different"


# =========================================================================== execute
class Result:
    def __init__(self):
        self.violations = []
        self.log = []
        self.stats = {"steps": 0, "sim_time": 0.0, "probes": {}, "faults_fired": {}, "sims": 0}

    def probe(self, name, n=1):
        self.stats["probes"][name] = self.stats["probes"].get(name, 0) + n

    def digest(self):
        return hashlib.sha256(repr(self.log).encode()).hexdigest()

    def violate(self, clause, what, detail):
        self.violations.append({"clause": clause, "fingerprint": f"{clause}/{what}", "detail": detail})


def _d(x):
    if x is None:
        return None
    h = hashlib.blake2b(digest_size=8)
    h.update(np.ascontiguousarray(np.asarray(x, dtype=float)).tobytes())
    return h.hexdigest()


def _fresh(ns, scn, pf_form=None):
    lib = ns.fresh()
    fl, _ = world.make_fluid(lib, scn["fluids"][0], ns.repo_root)
    o = scn["object"]
    pf = float(o["pf"])
    if pf_form == "np.float64":
        pf = np.float64(pf)
    elif pf_form == "0d":
        pf = np.array(pf)
    elif pf_form == "int" and pf == int(pf):
        pf = int(pf)
    return getattr(lib, o["cls"])(int(o["nx"]), pf, float(o["pi"]), fl if o.get("fluid") is not None else None)


def _as_repr(a, how):
    """The same values in another container (``how`` None = a private contiguous array)."""
    if a is None:
        return None
    a = np.array(a, copy=True)
    if how == "readonly":
        a.setflags(write=False)
        return a
    if how == "strided":
        big = np.zeros(2 * len(a), dtype=a.dtype)
        big[::2] = a
        return big[::2]
    if how == "list":
        return a.tolist()
    if how == "tuple":
        return tuple(a.tolist())
    if how == "series":
        import pandas as pd
        return pd.Series(a)
    return a


def _try(fn):
    try:
        with warnings.catch_warnings():
            warnings.simplefilter("ignore")
            return True, fn(), None
    except Exception as e:  # noqa: BLE001
        return False, None, type(e).__name__


def _apply_pre(out, res, scn, t):
    for p in scn.get("pre_rejected", []):
        if p["how"] in ("len", "range"):
            ok, _, exc = _try(lambda p=p: res.simulate(t.copy(), np.array(p["v"], dtype=float)))
        else:
            arg = [float(v) for v in t] if p["arg"] == "list" else None if p["arg"] == "none" else float(t[-1])
            ok, _, exc = _try(lambda arg=arg: res.simulate(arg))
        out.log.append(("pre", p["how"], ok, exc))
        if not ok:
            out.stats["faults_fired"]["F-reject-" + p["how"]] = out.stats["faults_fired"].get("F-reject-" + p["how"], 0) + 1
        else:
            out.probe("pre_rejected_call_was_accepted")
            return False
    return True


def _close(a, b, rel, floor=0.0):
    """|a-b| <= rel * max(scale of a and b, floor).  ``floor`` is the natural scale of the quantity: a recovery
    factor is a difference of O(1) scaled pseudopressures times nx, so its rounding error is absolute at that
    scale even when the recovery itself is tiny (p_f close or equal to p_i)."""
    a = np.asarray(a, dtype=float)
    b = np.asarray(b, dtype=float)
    if a.shape != b.shape:
        return False, "shape"
    if np.array_equal(a, b, equal_nan=True):
        return True, 0.0
    with np.errstate(all="ignore"):
        if not np.array_equal(np.isnan(a), np.isnan(b)):
            return False, "nan-pattern"
        scale = max(float(np.nanmax(np.abs(a))), float(np.nanmax(np.abs(b))), 1e-300, floor)
        d = float(np.nanmax(np.abs(a - b)))
    return d <= rel * scale, d / scale


def _sim(out, res, t, sched=None):
    out.stats["sims"] += 1
    out.stats["steps"] += len(t) - 1
    out.stats["sim_time"] += float(t[-1] - t[0])
    if sched is None:
        return _try(lambda: res.simulate(t))
    return _try(lambda: res.simulate(t, sched))


def execute(ns, scn):
    out = Result()
    kind = scn["kind"]
    t = np.array(scn["grid"]["t"], dtype=float)
    t_native = world.grid_array(scn["grid"])   # int64 for the integer family
    n = len(t)
    o = scn["object"]
    cls = o["cls"]
    sched = None if scn.get("sched") is None else np.array(scn["sched"]["v"], dtype=float)
    has_density = o.get("fluid") is not None and ("density" in _columns(ns, scn))
    rep = scn.get("repr") or {}
    if rep:
        for k, v in sorted(rep.items()):
            out.probe(f"repr_swarm:{k}={v}")

    if kind == "shift":
        c = float(scn["shift"])
        t2 = t + c
        if scn.get("canary") and len(t2) > 1:
            t2 = t2.copy()
            t2[1:] += (t2[1] - t2[0]) * 1e-3      # sensitivity canary: not a pure shift any more
        elif not np.array_equal(np.diff(t2), np.diff(t)):
            out.probe("shift_not_exact_skipped")
            out.log.append(("skip",))
            return out
        r1, r2 = _fresh(ns, scn), _fresh(ns, scn, rep.get("pf"))
        if not _apply_pre(out, r2, scn, t2):
            return out
        # "unchanged to rounding level": on the lattice the library's results are bit-identical today; the
        # tolerance still allows for a formulation that forms t/dx^2 before differencing (rounding amplified
        # by (|c|+max|t|)/min dt) - any defect that lets an absolute time in is orders of magnitude larger
        dpos = np.diff(t)
        dmin = float(np.min(dpos[dpos > 0])) if np.any(dpos > 0) else 1.0
        tol_shift = max(1e-10, 64 * np.finfo(float).eps * (abs(c) + float(np.max(np.abs(t)))) / dmin)
        ok1, _, e1 = _sim(out, r1, t_native.copy(), None if sched is None else sched.copy())
        ok2, _, e2 = _sim(out, r2, _as_repr(t2, rep.get("t")), _as_repr(sched, rep.get("sched")))
        out.log.append(("shift", c, ok1, ok2, e1, e2))
        if rep and ok1 and not ok2:
            out.probe("repr_form_rejected")     # a tree may refuse a container type; not this property's business
            return out
        if ok1 != ok2:
            out.violate("1-shift", "one-raises", {"unshifted": e1, "shifted": e2, "shift": c})
            return out
        if not ok1:
            out.probe("shift_world_rejected")
            return out
        good, d = _close(r1.pseudopressure, r2.pseudopressure, tol_shift)
        out.log.append(("pp", _d(r1.pseudopressure), _d(r2.pseudopressure)))
        if not good:
            out.violate("1-shift", "pseudopressure", {"rel_diff": d, "shift": c, "cls": cls})
            return out
        for dens in (False, True):
            if dens and not has_density:
                continue
            a1, v1, x1 = _try(lambda: r1.recovery_factor(density=dens))
            a2, v2, x2 = _try(lambda: r2.recovery_factor(density=dens))
            out.log.append(("rf", dens, a1, a2, _d(v1), _d(v2)))
            if a1 != a2:
                out.violate("1-shift", "recovery-one-raises", {"density": dens, "unshifted": x1, "shifted": x2})
                return out
            if a1:
                good, d = _close(v1, v2, tol_shift, floor=4.0 * o["nx"])
                if not good:
                    out.violate("1-shift", "recovery" + ("-density" if dens else ""), {"rel_diff": d, "shift": c, "cls": cls})
                    return out
        # interpolators built on the two objects agree at correspondingly shifted query times
        q = np.concatenate([t, 0.5 * (t[1:] + t[:-1]), [t[0] - Q, t[0] - 1.0, t[-1] + Q, t[-1] + 1.0]])
        q2 = q + c
        if np.array_equal(q2 - c, q):
            a1, f1, x1 = _try(lambda: r1.recovery_factor_interpolator())
            a2, f2, x2 = _try(lambda: r2.recovery_factor_interpolator())
            if a1 != a2:
                out.violate("1-shift", "interpolator-one-raises", {"unshifted": x1, "shifted": x2, "shift": c})
                return out
            if a1:
                b1, v1, y1 = _try(lambda: np.asarray(f1(q), dtype=float))
                b2, v2, y2 = _try(lambda: np.asarray(f2(q2), dtype=float))
                out.log.append(("interp", b1, b2, _d(v1), _d(v2)))
                if b1 != b2:
                    out.violate("1-shift", "interpolator-eval-one-raises", {"unshifted": y1, "shifted": y2, "shift": c})
                    return out
                if b1:
                    good, d = _close(v1, v2, 10 * tol_shift, floor=4.0 * o["nx"])
                    if not good:
                        out.violate("1-shift", "interpolator", {"rel_diff": d, "shift": c, "cls": cls})
                        return out
        # the stored time axis must be the one given (shifted), so that interpolation is in the caller's time
        if not np.array_equal(np.asarray(r2.time, dtype=float), t2):
            out.probe("stored_time_not_callers_axis")
        return out

    if kind == "const":
        r1, r2 = _fresh(ns, scn, rep.get("pf")), _fresh(ns, scn)
        if scn.get("reassign_from_pf") is not None:
            alt = dict(scn, object=dict(o, pf=float(scn["reassign_from_pf"])))
            r1 = _fresh(ns, alt)
            okset, _, eset = _try(lambda: setattr(r1, "pressure_fracface", float(o["pf"])))
            out.log.append(("reassign", okset, eset))
            if not okset:
                out.probe("pf_reassignment_refused")    # e.g. a frozen dataclass: nothing to compare
                return out
            out.probe("scalar_assigned_after_construction")
        if not _apply_pre(out, r2, scn, t):
            return out
        ok1, _, e1 = _sim(out, r1, t.copy())
        if scn.get("const_form", "simulate_arg") == "simulate_arg":
            if scn.get("other_pf") is not None:
                r2.pressure_fracface = float(scn["other_pf"])   # same as constructing it with that scalar
            ok2, _, e2 = _sim(out, r2, _as_repr(t, rep.get("t")), _as_repr(np.full(n, float(o["pf"])), rep.get("sched")))
        else:
            r2.pressure_fracface = np.full(n, float(o["pf"]))   # same as constructing with the array
            ok2, _, e2 = _sim(out, r2, t.copy())
        out.log.append(("const", ok1, ok2, e1, e2))
        if rep and ok1 != ok2:
            out.probe("repr_form_rejected")
            return out
        if ok1 != ok2:
            out.violate("2-const", "one-raises", {"scalar": e1, "constant_schedule": e2})
            return out
        if not ok1:
            out.probe("const_world_rejected")
            return out
        good, d = _close(r1.pseudopressure, r2.pseudopressure, 1e-12)
        out.log.append(("pp", _d(r1.pseudopressure), _d(r2.pseudopressure)))
        if not good:
            out.violate("2-const", "pseudopressure", {"rel_diff": d, "cls": cls})
            return out
        for dens in (False, True):
            if dens and not has_density:
                continue
            a1, v1, x1 = _try(lambda: r1.recovery_factor(density=dens))
            a2, v2, x2 = _try(lambda: r2.recovery_factor(density=dens))
            out.log.append(("rf", dens, a1, a2, _d(v1), _d(v2)))
            if a1 != a2:
                out.violate("2-const", "recovery-one-raises", {"density": dens, "scalar": x1, "constant_schedule": x2})
                return out
            if a1:
                good, d = _close(v1, v2, 1e-12, floor=4.0 * o["nx"])
                if not good:
                    out.violate("2-const", "recovery" + ("-density" if dens else ""), {"rel_diff": d, "cls": cls})
                    return out
        return out

    if kind == "rejectlen":
        res = _fresh(ns, scn)
        if not _apply_pre(out, res, scn, t):
            return out
        for j in range(scn["completed_before"]):
            ok, _, e = _sim(out, res, t.copy() if j % 2 == 0 else t.copy() * 1.5 + Q)
            out.log.append(("before", ok, e))
        m = int(scn["bad_len"])
        if scn["sched_kind"] == "nan_padded" and m > n:
            r = np.random.RandomState(scn["sched_seed"] % (2 ** 31))  # values/positions only; not a scheduling choice
            s = np.full(m, float(o["pf"]))
            s[r.choice(m, size=m - n, replace=False)] = np.nan
        elif scn["sched_kind"] == "const" or m == 0:
            s = np.full(m, float(o["pf"]))
        else:
            r = np.random.RandomState(scn["sched_seed"] % (2 ** 31))  # values only; not a scheduling choice
            fs = scn["fluids"][0]
            s = fs["_p_lo"] + r.rand(m) * (fs["p_i"] - fs["_p_lo"])
        before = (_d(getattr(res, "time", None)), _d(getattr(res, "pseudopressure", None)))
        s = _as_repr(s, rep.get("sched"))
        ok, _, e = _try(lambda: res.simulate(t.copy(), s))
        out.log.append(("rejectlen", m, n, ok, e))
        if ok:
            out.violate("3-rejectlen", "accepted", {"len_schedule": m, "len_time": n, "cls": cls,
                                                    "completed_before": scn["completed_before"]})
            return out
        out.stats["faults_fired"]["F-reject-len"] = out.stats["faults_fired"].get("F-reject-len", 0) + 1
        if e != "ValueError":
            out.probe("rejectlen_raised_" + str(e))
        after = (_d(getattr(res, "time", None)), _d(getattr(res, "pseudopressure", None)))
        if before != after:
            out.probe("rejected_call_changed_state")
        return out

    if kind == "norun":
        res = _fresh(ns, scn)
        pristine = not scn.get("pre_rejected")
        if not _apply_pre(out, res, scn, t):
            return out
        for rd in scn["reads"]:
            if rd == "rf":
                ok, v, e = _try(lambda: res.recovery_factor())
            elif rd == "rfd":
                ok, v, e = _try(lambda: res.recovery_factor(density=True))
            elif rd == "rf_time":
                ok, v, e = _try(lambda: res.recovery_factor(t.copy()))
            else:
                ok, v, e = _try(lambda: res.recovery_factor_interpolator())
            out.log.append(("norun", rd, ok, e))
            if ok:
                out.violate("4-norun", rd + "-returned", {"pristine": pristine, "cls": cls, "read": rd})
                return out
            if pristine and rd in ("rf", "interp") and e != "RuntimeError":
                out.probe("norun_raised_" + str(e))
        return out

    if kind == "interp":
        res = _fresh(ns, scn)
        t = t + float(scn.get("grid_shift", 0.0))
        if scn["grid"].get("dtype") == "int64" and float(scn.get("grid_shift", 0.0)) == float(int(scn.get("grid_shift", 0.0))):
            t = np.array([int(round(v)) for v in t], dtype=np.int64)
        if not _apply_pre(out, res, scn, t):
            return out
        ok, _, e = _sim(out, res, _as_repr(t, rep.get("t")), _as_repr(sched, rep.get("sched")))
        out.log.append(("sim", ok, e))
        if not ok:
            out.probe("interp_world_rejected")
            return out
        modes = [m for m in scn.get("modes", [scn.get("mode", "flux")]) if m != "none"]
        if not has_density:
            modes = ["flux" + (("@" + m.split("@")[1]) if "@" in m else "") for m in modes]
        mode = "+".join(modes) or "none"
        tf = np.asarray(t, dtype=float)
        explicit = {"same": tf.copy(), "halfstep": tf + 0.5 * Q * 2 ** 10,
                    "shorter": tf[: max(2, len(tf) // 2)].copy(),
                    "longer": np.concatenate([tf, tf[-1] + (tf[-1] - tf[0] + 1.0) * np.arange(1, 4)])}
        r = None
        if scn.get("interp_first"):
            okf, _, ef = _try(lambda: res.recovery_factor_interpolator())
            out.log.append(("interp_first", okf, ef))
        used_explicit = False
        for m in modes:
            base, _, at = m.partition("@")
            if at:
                used_explicit = True
                out.probe("recovery_called_with_explicit_time")
                okr, r, er = _try(lambda: res.recovery_factor(explicit[at], density=(base == "density")))
            else:
                okr, r, er = _try(lambda: res.recovery_factor(density=(base == "density")))
            out.log.append(("rf", m, okr, er, _d(r) if okr else None))
            if not okr:
                out.probe("interp_rf_raised")
                return out
            r = np.array(r, dtype=float, copy=True)
        oki, f, ei = _try(lambda: res.recovery_factor_interpolator())
        if not oki:
            out.violate("5-interp", "raised", {"exc": ei, "mode": mode, "cls": cls})
            return out
        if used_explicit:
            # "recovery at the simulated times" = what a twin object that ran the same simulation returns for the
            # last requested mode without a time argument (the array returned above may be on the requested times)
            twin = _fresh(ns, scn)
            okt, _, et = _sim(out, twin, np.array(t, copy=True), None if sched is None else sched.copy())
            okt2, r, et2 = _try(lambda: twin.recovery_factor(density=(modes[-1].partition("@")[0] == "density"))) if okt else (False, None, et)
            if not okt2:
                out.probe("interp_twin_failed:" + str(et if not okt else et2))
                return out
            r = np.array(r, dtype=float, copy=True)
        if r is None:
            okr, r, er = _try(lambda: res.recovery_factor())
            if not okr:
                out.probe("interp_rf_raised")
                return out
            r = np.array(r, dtype=float, copy=True)
        tt = np.asarray(res.time, dtype=float)
        uniq = np.concatenate([[True], np.diff(tt) > 0]) & np.concatenate([np.diff(tt) > 0, [True]])
        okv, at_nodes, ev = _try(lambda: np.asarray(f(tt), dtype=float))
        span = float(tt[-1] - tt[0]) or 1.0
        okb, before, eb = _try(lambda: np.asarray(f(np.array([tt[0] - Q, tt[0] - 0.5 * span - 1.0, -1e9])), dtype=float))
        oka, after, ea = _try(lambda: np.asarray(f(np.array([tt[-1] + Q, tt[-1] + 0.5 * span + 1.0, 1e12])), dtype=float))
        out.log.append(("interp", mode, _d(r), _d(at_nodes), _d(before), _d(after)))
        if not (okv and okb and oka):
            out.violate("5-interp", "evaluation-raised", {"nodes": ev, "before": eb, "after": ea})
            return out
        good, d = _close(at_nodes[uniq], r[uniq], 1e-12)
        if not good:
            out.violate("5-interp", "nodes", {"rel_diff": d, "mode": mode, "cls": cls})
            return out
        if not np.all(before == 0.0):
            out.violate("5-interp", "before-first", {"values": before.tolist(), "mode": mode})
            return out
        if not np.all(after == r[-1]):
            out.violate("5-interp", "after-last", {"values": after.tolist(), "last": float(r[-1]), "mode": mode})
            return out
        return out
    raise ValueError(kind)


_COLS = {}


def _columns(ns, scn):
    key = repr(sorted(scn["fluids"][0].items()))
    if key not in _COLS:
        tb = world.make_table(scn["fluids"][0], ns.repo_root)
        _COLS[key] = set(tb.keys())
    return _COLS[key]


# =========================================================================== module interface
def new_aggregate():
    return {"runs": 0, "kinds": {}, "steps": 0, "sims": 0, "sim_time": 0.0, "probes": {}, "faults_fired": {},
            "cases": set(), "cases_nontrivial": set(), "samples": [], "classes": {}, "violating_runs": 0, "pre": 0}


def _case_key(scn):
    import json

    return hashlib.blake2b(json.dumps(scn, sort_keys=True).encode(), digest_size=10).hexdigest()


def aggregate(agg, scn, res):
    agg["runs"] += 1
    agg["kinds"][scn["kind"]] = agg["kinds"].get(scn["kind"], 0) + 1
    st = res.stats
    agg["steps"] += st["steps"]
    agg["sims"] += st["sims"]
    agg["sim_time"] += st["sim_time"]
    for key in ("probes", "faults_fired"):
        for kx, v in st[key].items():
            agg[key][kx] = agg[key].get(kx, 0) + v
    ck = _case_key(scn)
    agg["cases"].add(ck)
    skipped = any(k.endswith("_skipped") or k.endswith("_rejected") for k in st["probes"])
    if not skipped and (st["sims"] > 0 or scn["kind"] == "norun"):
        agg["cases_nontrivial"].add(ck)
    agg["classes"][scn["object"]["cls"]] = agg["classes"].get(scn["object"]["cls"], 0) + 1
    agg["pre"] += 1 if scn.get("pre_rejected") else 0
    if res.violations:
        agg["violating_runs"] += 1
    if len(agg["samples"]) < 5 and scn["kind"] not in [s["kind"] for s in agg["samples"]]:
        agg["samples"].append(sample_repr(scn, res))


def merge(a, b):
    a["timeouts"] = a.get("timeouts", 0) + b.get("timeouts", 0)
    a["setup_errors"] = a.get("setup_errors", 0) + b.get("setup_errors", 0)
    for key in ("runs", "steps", "sims", "violating_runs", "pre"):
        a[key] += b[key]
    a["sim_time"] += b["sim_time"]
    for key in ("kinds", "probes", "faults_fired", "classes"):
        for kx, v in b[key].items():
            a[key][kx] = a[key].get(kx, 0) + v
    a["cases"] |= b["cases"]
    a["cases_nontrivial"] |= b["cases_nontrivial"]
    for s in b["samples"]:
        if len(a["samples"]) < 5 and s["kind"] not in [x["kind"] for x in a["samples"]]:
            a["samples"].append(s)


def sample_repr(scn, res=None):
    o = scn["object"]
    t = scn["grid"]["t"]
    d = {"kind": scn["kind"], "object": f'{o["cls"]}(nx={o["nx"]}, pf={o["pf"]}, pi={o["pi"]})',
         "fluid": f'{scn["fluids"][0]["family"]}@p_i={scn["fluids"][0]["p_i"]}',
         "grid": f'{scn["grid"]["family"]} n={len(t)} t0={t[0]:.6g} t_end={t[-1]:.6g}',
         "pre_rejected": [p["how"] for p in scn.get("pre_rejected", [])]}
    for k in ("shift", "bad_len", "completed_before", "reads", "modes", "grid_shift", "const_form", "other_pf"):
        if k in scn:
            d[k] = scn[k]
    if res is not None:
        d["events"] = [list(map(str, e)) for e in res.log[:6]]
    return d


def fingerprint_class(fp):
    return fp


def shrink_candidates(scn):
    import copy

    if scn.get("pre_rejected"):
        c = copy.deepcopy(scn)
        c["pre_rejected"] = []
        yield c
    if scn.get("repr"):
        c = copy.deepcopy(scn)
        c.pop("repr")
        yield c
        for k in scn["repr"]:
            if len(scn["repr"]) > 1:
                c = copy.deepcopy(scn)
                c["repr"].pop(k)
                yield c
    t = scn["grid"]["t"]
    n = len(t)
    for m in (2, 3, n // 2, n - 1):
        if 2 <= m < n:
            c = copy.deepcopy(scn)
            c["grid"]["t"] = t[:m]
            if c.get("sched") is not None:
                c["sched"]["v"] = c["sched"]["v"][:m]
            if "bad_len" in c and c["bad_len"] == m:
                continue
            for p in c.get("pre_rejected", []):
                if p["how"] == "range":
                    p["v"] = p["v"][:m - 1] + [max(p["v"])]
                elif p["how"] == "len" and len(p["v"]) == m:
                    p["v"] = p["v"] + [p["v"][0] if p["v"] else 0.0]
            yield c
    nx = scn["object"]["nx"]
    for m in (3, nx // 2):
        if 3 <= m < nx:
            c = copy.deepcopy(scn)
            c["object"]["nx"] = m
            yield c
    if scn.get("sched") is not None:
        c = copy.deepcopy(scn)
        c["sched"] = None
        yield c
    if scn.get("completed_before"):
        c = copy.deepcopy(scn)
        c["completed_before"] = 0
        yield c
    if scn["kind"] == "norun" and len(scn["reads"]) > 1:
        for i in range(len(scn["reads"])):
            c = copy.deepcopy(scn)
            c["reads"] = [scn["reads"][i]]
            yield c
    if scn["kind"] == "interp":
        if scn.get("interp_first"):
            c = copy.deepcopy(scn)
            c["interp_first"] = False
            yield c
        ms = scn.get("modes", [])
        for i in range(len(ms)):
            c = copy.deepcopy(scn)
            c["modes"] = ms[:i] + ms[i + 1:]
            yield c
        if scn.get("grid_shift"):
            c = copy.deepcopy(scn)
            c["grid_shift"] = 0.0
            yield c
    if scn["kind"] == "shift" and abs(scn["shift"]) != 1.0:
        c = copy.deepcopy(scn)
        c["shift"] = 1.0
        yield c
    f = scn["fluids"][0]
    if f["family"] != "gas" or f.get("n", 0) > 4:
        c = copy.deepcopy(scn)
        hi = float(max(f["_p_hi"], f["p_i"]))
        c["fluids"][0] = {"family": "gas", "n": 4, "p_lo": 100.0, "p_hi": hi, "a": 0.1, "b": 0.05, "c": 0.5,
                          "mu0": 0.02, "as": "dict", "p_i": f["p_i"], "_p_lo": 100.0, "_p_hi": hi}
        if scn["object"]["pf"] >= 100.0 and (scn.get("sched") is None or min(scn["sched"]["v"]) >= 100.0) \
                and not any(p["how"] == "range" for p in scn.get("pre_rejected", [])):
            yield c


def evidence(out, tier, seed, wall, wall_batch, cross, known_hits, violations, workers, ns):
    from dst import engine

    agg = out["agg"]
    runs = out["done"]
    warn = [f"clause family {k} never generated" for k in KINDS if not agg["kinds"].get(k)]
    return {
        "property_id": ID, "tier": tier, "seed": seed, "level": LEVEL, "wall_s": round(wall, 2),
        "violations": violations,
        "coverage": {
            "evaluations": runs,
            "distinct_nontrivial": len(agg["cases_nontrivial"]),
            "rule": "one evaluation = one seeded scenario of one clause family (shift pair on the 2^-20 lattice / scalar-vs-constant-"
                    "schedule pair / wrong-length schedule as 1st-3rd call / reads with no completed simulate / interpolator "
                    "read-back), on fresh real objects optionally preceded by 0-2 rejected calls. distinct = distinct scenario "
                    "digests; non-trivial = the scenario's world was accepted by the library and its oracle was evaluated.",
            "samples": agg["samples"],
            "planned_runs": out["planned"],
            "runs_by_clause_family": agg["kinds"],
            "runs_preceded_by_rejected_calls": agg["pre"],
            "reservoir_classes": agg["classes"],
            "simulations_executed": agg["sims"],
            "time_steps_simulated": agg["steps"],
            "scaled_simulated_time_covered": agg["sim_time"],
            "faults_fired": dict(sorted(agg["faults_fired"].items())),
            "probes": dict(sorted(agg["probes"].items())),
            "runs_per_hour": int(runs / max(1e-9, wall_batch) * 3600),
            "seeds_per_hour": int(runs / max(1e-9, wall_batch) * 3600),
            "workers": workers,
            "determinism_cross_check": cross,
            "batch_digest": engine.batch_digest(out["digests"]),
            "known_finding_runs": known_hits,
            "violating_runs": agg["violating_runs"],
            "scenarios_timed_out_inconclusive": agg.get("timeouts", 0),
            "scenarios_not_set_up_inconclusive": agg.get("setup_errors", 0),
            "warnings": warn,
            "real_vs_stub": {"real": "all of bluebonnet and scipy", "stub": "none (faults here are natural rejected calls)",
                             "model": "absolute oracles per clause; pairs of real runs for clauses 1-2"},
            "repo_root": ns.repo_root,
        },
        "assumptions": [
            "clauses 1-2 are relations between two deterministic runs: the simulator contributes seeding, lattice grids, shrinking and replay only",
            "shift pairs live on the 2^-20 lattice so that time differences are bit-identical; any disagreement means an absolute time entered the computation",
            "for clause 3/4 any exception counts as a rejection; the exception type is recorded as a probe only",
        ],
    }
