"""Batch driver shared by the three checks: seeded runs over a fork pool, determinism
cross-check, known-findings matching, minimisation, replay files, evidence."""

from __future__ import annotations

import faulthandler
import hashlib
import json
import multiprocessing
import os
import subprocess
import sys
import time
from concurrent.futures import ProcessPoolExecutor, as_completed

from dst import boot, seeds

VERIF = os.path.dirname(os.path.dirname(os.path.abspath(__file__)))
CHUNK = 40
SCENARIO_WALL_LIMIT_S = 15.0
_ERR_SHOWN = 0


class ScenarioTimeout(BaseException):
    """One scenario exceeded its wall-clock limit (a hang in the tree under test)."""


def _on_alarm(signum, frame):
    raise ScenarioTimeout()


def execute_limited(mod, ns, scn, limit=SCENARIO_WALL_LIMIT_S):
    """mod.execute under a wall-clock limit.  Returns (result | None, timed_out)."""
    import signal

    from dst import seams

    old = signal.signal(signal.SIGALRM, _on_alarm)
    try:
        try:
            signal.setitimer(signal.ITIMER_REAL, limit)
            try:
                return mod.execute(ns, scn), False
            finally:
                # disarm INSIDE the guarded region: if the alarm goes off while we are leaving, the exception
                # it raises is still caught below instead of escaping into the worker loop
                signal.setitimer(signal.ITIMER_REAL, 0)
        except ScenarioTimeout:
            return None, True
        except Exception:  # noqa: BLE001
            # the scenario could not even be set up on this tree (e.g. a fluid constructor that now raises):
            # inconclusive, reported in the evidence; the first few tracebacks go to stderr
            global _ERR_SHOWN
            if _ERR_SHOWN < 3:
                _ERR_SHOWN += 1
                import traceback

                traceback.print_exc()
            return None, "error"
    finally:
        signal.setitimer(signal.ITIMER_REAL, 0)
        signal.signal(signal.SIGALRM, old)
        sys.settrace(None)
        seams.SOLVER.end()


class Context:
    """Everything a worker needs; set in the parent before fork."""

    ns = None
    mod = None
    batch_seed = None
    tier = None
    deadline = None
    opts = None


def _worker_chunk(args):
    lo, hi = args
    faulthandler.dump_traceback_later(600, exit=True)
    try:
        mod, ns = Context.mod, Context.ns
        agg = mod.new_aggregate()
        digests, viol = [], []
        done = 0
        for k in range(lo, hi):
            if time.time() > Context.deadline:
                break
            scn = mod.scenario_for(k, Context.batch_seed, Context.tier, ns.repo_root, Context.opts)
            res, timed_out = execute_limited(mod, ns, scn)
            if timed_out:
                # inconclusive: neither a pass nor a violation; excluded from the determinism cross-check
                digests.append((k, "TIMEOUT"))
                key = "timeouts" if timed_out is True else "setup_errors"
                agg[key] = agg.get(key, 0) + 1
                done += 1
                continue
            digests.append((k, res.digest()))
            mod.aggregate(agg, scn, res)
            if res.violations:
                if len(viol) < 6:
                    viol.append((k, scn, res.violations[0]))
                else:
                    viol.append((k, None, {"fingerprint": res.violations[0]["fingerprint"]}))
            done += 1
        return lo, hi, done, agg, digests, viol
    finally:
        faulthandler.cancel_dump_traceback_later()


def run_batch(mod, ns, nruns, batch_seed, tier, workers, time_cap, opts=None, indices=None, start=0):
    Context.ns, Context.mod = ns, mod
    Context.batch_seed, Context.tier = batch_seed, tier
    Context.deadline = time.time() + time_cap
    Context.opts = opts or {}
    if indices is not None:
        chunks = [(i, i + 1) for i in indices]
    else:
        chunks = [(lo, min(start + nruns, lo + CHUNK)) for lo in range(start, start + nruns, CHUNK)]
    agg = mod.new_aggregate()
    digests, viol = {}, []
    done = 0
    t0 = time.time()
    if workers <= 1:
        results = map(_worker_chunk, chunks)
        for r in results:
            lo, hi, d, a, dg, vi = r
            done += d
            mod.merge(agg, a)
            digests.update(dg)
            viol.extend(vi)
    else:
        ctx = multiprocessing.get_context("fork")
        with ProcessPoolExecutor(max_workers=workers, mp_context=ctx) as ex:
            futs = [ex.submit(_worker_chunk, c) for c in chunks]
            for f in as_completed(futs):
                lo, hi, d, a, dg, vi = f.result()
                done += d
                mod.merge(agg, a)
                digests.update(dg)
                viol.extend(vi)
    viol.sort(key=lambda v: v[0])
    return {"done": done, "agg": agg, "digests": digests, "violations": viol, "wall": time.time() - t0,
            "planned": nruns if indices is None else len(indices)}


def batch_digest(digests):
    h = hashlib.sha256()
    for k in sorted(digests):
        h.update(f"{k}:{digests[k]};".encode())
    return h.hexdigest()


# ------------------------------------------------------------------ determinism cross-check
def cross_check(prop, tier, batch_seed, repo_root, indices, digests, opts=None):
    """Re-run ``indices`` in a fresh interpreter (other hash seed, 3 workers); compare digests."""
    env = dict(os.environ)
    env.pop("BBV_ENV_PINNED", None)
    env["BBV_HASHSEED"] = "4242"
    env["VERIF_SEED"] = str(batch_seed)
    cmd = [sys.executable, os.path.join(VERIF, "dst_main.py"), "digests", prop, "--tier", tier,
           "--repo", repo_root, "--indices", ",".join(map(str, indices)), "--workers", "3"]
    if opts:
        cmd += ["--opts", json.dumps(opts)]
    p = subprocess.run(cmd, env=env, capture_output=True, text=True, timeout=900, check=False)
    if p.returncode != 0:
        raise boot.HarnessError(f"determinism cross-check subprocess failed: {p.stderr[-2000:]}")
    other = json.loads(p.stdout.strip().splitlines()[-1])
    bad = [k for k in indices if other.get(str(k)) != digests.get(k)
           and "TIMEOUT" not in (other.get(str(k)), digests.get(k))]
    return {"checked": len(indices), "mismatches": bad, "other_hashseed": "4242", "other_workers": 3}


# ------------------------------------------------------------------ known findings
def load_known():
    path = os.path.join(VERIF, "known_findings.json")
    try:
        with open(path) as f:
            return json.load(f)
    except FileNotFoundError:
        return {"findings": [], "fixed": []}


def match_known(known, prop, fingerprint):
    for f in known.get("findings", []):
        if f.get("property") == prop and f.get("fingerprint") == fingerprint:
            return f
    return None


# ------------------------------------------------------------------ minimise + replay
def minimise(mod, ns, scn, fingerprint, budget_s=60):
    """Greedy descent over mod.shrink_candidates while the same fingerprint persists."""
    t0 = time.time()
    cur = scn
    improved = True
    steps = 0
    while improved and time.time() - t0 < budget_s:
        improved = False
        for cand in mod.shrink_candidates(cur):
            if time.time() - t0 > budget_s:
                break
            try:
                res, timed_out = execute_limited(mod, ns, cand)
            except Exception:  # noqa: BLE001  (an invalid shrink is simply not taken)
                continue
            if timed_out:
                continue
            if res.violations and res.violations[0]["fingerprint"] == fingerprint:
                cur = cand
                improved = True
                steps += 1
                break
    return cur, steps


def write_replay(prop, batch_seed, k, scn, violation, digest, extra=None):
    d = os.environ.get("BBV_REPLAY_DIR") or os.path.join(VERIF, "replays")
    os.makedirs(d, exist_ok=True)
    path = os.path.join(d, f"{prop}-{batch_seed}-{k}.json")
    with open(path, "w") as f:
        json.dump({"property": prop, "batch_seed": batch_seed, "run_index": k, "scenario": scn,
                   "violation": violation, "event_log_digest": digest, **(extra or {})}, f, indent=1, default=_js)
    return path


def _js(o):
    import numpy as np

    if isinstance(o, (np.floating, np.integer)):
        return o.item()
    if isinstance(o, np.ndarray):
        return o.tolist()
    if isinstance(o, (set, tuple)):
        return list(o)
    return str(o)


def replay_in_fresh_process(path, repo_root):
    env = dict(os.environ)
    env.pop("BBV_ENV_PINNED", None)
    cmd = [sys.executable, os.path.join(VERIF, "dst_main.py"), "replay", path, "--repo", repo_root, "--json"]
    p = subprocess.run(cmd, env=env, capture_output=True, text=True, timeout=600, check=False)
    try:
        return json.loads(p.stdout.strip().splitlines()[-1])
    except Exception:  # noqa: BLE001
        return {"error": p.stderr[-1000:], "returncode": p.returncode}


# ------------------------------------------------------------------ evidence
def write_evidence(prop, obj):
    d = os.environ.get("BBV_EVIDENCE_DIR") or os.path.join(VERIF, "evidence")
    os.makedirs(d, exist_ok=True)
    path = os.path.join(d, f"{prop}.json")
    tmp = path + ".tmp"
    with open(tmp, "w") as f:
        json.dump(obj, f, indent=1, default=_js, sort_keys=False)
    os.replace(tmp, path)
    return path
