"""C10 — results always reflect the most recent simulation, never stale state.

A seeded scheduler drives 1-3 real reservoir objects (sharing 1-2 real fluids) through an
interleaved history of API calls and injected faults; after every operation the object
is compared with a *fresh-object reference*: a new fluid built from the pristine table
spec, a new reservoir from the recorded constructor arguments, on which only the latest
completed simulate and the reads issued after it are executed.

Configuration A: no faults -> exact refinement after every op.
Configuration B: rejected calls, crash points, solver exceptions -> relaxed oracles
B1 (no residue after the next completed simulate), B2 (a read between a failed
simulate and the next completed one raises or equals the reference of the last
completed simulate), B3 (no completed simulate -> reads raise).
"""

from __future__ import annotations

import copy
import hashlib
import warnings

import numpy as np

from dst import seams, world

RES_CLASSES = ("IdealReservoir", "SinglePhaseReservoir", "TwoPhaseReservoir")
STRICT_OPS = ("simA", "simB", "simC", "rf", "rfd", "interp")


# =========================================================================== generate
def generate(rng, repo_root, config="A", opts=None):
    """Draw a scenario (JSON-able dict).  ``config`` is 'A' (fault-free) or 'B'."""
    opts = opts or {}
    strict = rng.random() < 0.35  # exactly the quantifier's alphabet, one object
    nflu = 1 if strict or rng.random() < 0.6 else 2
    fluids = [world.draw_fluid_spec(rng, repo_root) for _ in range(nflu)]
    nobj = 1 if strict else rng.choice([1, 1, 2, 2, 3])
    objs = []
    for _ in range(nobj):
        if strict:
            cls = rng.choice(RES_CLASSES[:2])
        else:
            cls = rng.choice(RES_CLASSES + ("SinglePhaseReservoir",))
        fi = rng.randrange(nflu)
        fs = fluids[fi]
        o = {"cls": cls, "nx": rng.choice([3, 4, 5, 8, 10, 16, 25, 40]),
             "pf": world.draw_pf(rng, fs), "pi": fs["p_i"], "fluid": fi}
        if cls == "IdealReservoir" and rng.random() < 0.3:
            o["fluid"] = None
        objs.append(o)
    if config == "B" and not strict and rng.random() < 0.15:
        fi = rng.randrange(nflu)
        objs.append({"cls": "MultiPhaseReservoir", "nx": 5, "pf": world.draw_pf(rng, fluids[fi]),
                     "pi": fluids[fi]["p_i"], "fluid": fi})
    nmax = opts.get("grid_nmax", 40)
    gA = world.draw_grid(rng, nmax=nmax)
    gB = world.same_length_variant(rng, gA)
    gC = world.other_length_variant(rng, gA, nmax=nmax)
    u = rng.random()
    if u < 0.08:
        gC = world.continuation_of(gC, gA)      # C starts exactly where A ends
    elif u < 0.14:
        gB = world.continuation_of(gB, gA)      # B (same length) starts exactly where A ends
    elif u < 0.18:
        gA = world.continuation_of(gA, gC)      # A starts exactly where C ends
    grids = {"A": gA, "B": gB, "C": gC}

    nops = rng.choice([2, 3, 3, 4, 4, 5, 6, 8, 12])
    if rng.random() < (0.08 if opts.get("tier") == "thorough" else 0.02):
        nops = rng.choice([20, 30, 45])   # call-count dependent state (eviction after N calls, counters)
    weights = {
        "simA": rng.choice([1, 2, 3]), "simB": rng.choice([1, 2, 3]), "simC": rng.choice([1, 2, 3]),
        "rf": rng.choice([1, 2, 4]), "rfd": rng.choice([1, 2, 4]), "interp": rng.choice([1, 3, 5]),
    }
    if not strict:
        weights.update({"sim_sched": rng.choice([0, 1, 3]), "sim_const": rng.choice([0, 1, 2]),
                        "repeat": rng.choice([0, 1, 2])})
    fault_kinds = []
    if config == "B":
        pool = ["F-reject-len", "F-reject-range", "F-reject-type", "F-crash-line", "F-solver-raise",
                "F-reject-notimpl", "F-alpha-raise"]
        fault_kinds = [k for k in pool if rng.random() < 0.6] or [rng.choice(pool)]
    nfaults = 0 if config == "A" else rng.choice([1, 1, 2, 3])
    spaced = rng.random() < 0.7
    kinds = sorted(weights)
    ops = []
    last_fault_at = -10
    last_grid = {}
    fault_slots = set()
    if nfaults:
        # place faults inside the history (never before the first op: that is the typestate case,
        # which gets its own 20 % share below)
        cand = list(range(nops))
        rng.shuffle(cand)
        for c in sorted(cand[: nfaults]):
            fault_slots.add(c)
    first_fault_early = config == "B" and rng.random() < 0.2
    if first_fault_early:
        fault_slots.add(0)
    for i in range(nops):
        k = rng.randrange(len(objs))
        ospec = objs[k]
        is_multi = ospec["cls"] == "MultiPhaseReservoir"
        if is_multi:
            ops.append({"op": "simulate", "obj": k, "grid": rng.choice("ABC"), "sched": None,
                        "fault": {"kind": "F-reject-notimpl"}} if rng.random() < 0.6 else
                       {"op": rng.choice(["rf", "interp"]), "obj": k, "density": False})
            continue
        want_fault = i in fault_slots and (not spaced or i - last_fault_at >= 2 or i == 0)
        if want_fault:
            fk = rng.choice([f for f in fault_kinds if f != "F-reject-notimpl"] or ["F-reject-len"])
            op = _draw_fault_op(rng, fk, k, ospec, fluids, grids, last_grid.get(k))
            if op is not None:
                ops.append(op)
                last_fault_at = i
                if op["op"] == "simulate" and rng.random() < 0.7:
                    # a fault while nobody looks tests nothing: observe the object right after it
                    rk = rng.choice(["rf", "rfd", "interp", "interp"])
                    ops.append(_draw_plain_op(rng, rk, k, ospec, fluids, grids))
                continue
        kind = _weighted(rng, kinds, weights)
        if k not in last_grid and kind in ("rf", "rfd", "interp", "repeat") and rng.random() < 0.75:
            kind = rng.choice(["simA", "simB", "simC"])   # reads on a never-simulated object only test the typestate
        ops.append(_draw_plain_op(rng, kind, k, ospec, fluids, grids))
        if ops[-1]["op"] == "simulate":
            last_grid[k] = ops[-1]["grid"]
    scn = {"property": "C10", "config": config, "strict_alphabet": strict, "fluids": fluids,
           "objects": objs, "grids": grids, "ops": ops}
    # the way a script is usually written: ONE array object per grid (and per schedule), handed to every
    # simulate call that uses it, on every object - so state keyed on argument identity (``time is self.time``,
    # id()-keyed memos, arrays kept by reference) is reachable.  References always get private copies.
    if rng.random() < 0.4:
        scn["share_arrays"] = True
    # simulate bursts: one read, then 8-40 consecutive simulates with nobody looking, then reads again - the shape
    # that lets state tagged with something recyclable (an id(), a counter that wraps, a bounded cache) go stale
    if rng.random() < (0.03 if opts.get("tier") == "thorough" else 0.015) and objs[0]["cls"] != "MultiPhaseReservoir":
        nburst = rng.choice([8, 12, 20, 30, 40])
        head = [_draw_plain_op(rng, rng.choice(["simA", "simB", "simC"]), 0, objs[0], fluids, grids),
                _draw_plain_op(rng, rng.choice(["rf", "rfd", "interp"]), 0, objs[0], fluids, grids)]
        burst = [_draw_plain_op(rng, rng.choice(["simA", "simB", "simC"]), 0, objs[0], fluids, grids) for _ in range(nburst)]
        tail = [_draw_plain_op(rng, rng.choice(["rf", "rfd", "interp"]), 0, objs[0], fluids, grids) for _ in range(rng.choice([1, 2, 3]))]
        for op in head + burst + tail:
            op.pop("container", None)
        scn["ops"] = ops = head + burst + tail
        scn["shape"] = "burst"
    # twin objects: two reservoirs built from EQUAL constructor arguments (same class, nx, pressures, the same
    # shared fluid object) - state keyed on an object's value instead of its identity (dataclass __eq__/__hash__,
    # memo keys made of field values) is only reachable this way
    if len(objs) >= 2 and rng.random() < 0.25:
        j = rng.randrange(1, len(objs))
        if objs[j]["cls"] != "MultiPhaseReservoir":
            objs[j] = dict(objs[0])
            scn["twin_objects"] = [0, j]
            for op in ops:
                if op["obj"] == j and op.get("sched") is not None and not op.get("fault"):
                    op["sched"] = None     # drawn for the former object's fluid
    return scn


def _weighted(rng, kinds, weights):
    tot = sum(weights[k] for k in kinds)
    x = rng.random() * tot
    for k in kinds:
        x -= weights[k]
        if x < 0:
            return k
    return kinds[-1]


def _draw_plain_op(rng, kind, k, ospec, fluids, grids):
    ideal = ospec["cls"] == "IdealReservoir"
    if kind in ("simA", "simB", "simC"):
        op = {"op": "simulate", "obj": k, "grid": kind[-1], "sched": None}
        if not ideal and rng.random() < 0.05:
            op["container"] = "list"      # a plain Python list is a legal time argument for these classes
        return op
    if kind in ("sim_sched", "sim_const"):
        g = rng.choice("ABC")
        if ideal or ospec.get("fluid") is None or ospec["cls"] == "TwoPhaseReservoir":
            return {"op": "simulate", "obj": k, "grid": g, "sched": None}
        n = len(grids[g]["t"])
        fs = fluids[ospec["fluid"]]
        pf = ospec["pf"] if not isinstance(ospec["pf"], list) else ospec["pf"][0]
        sch = world.draw_schedule(rng, fs, pf, n, kind="const" if kind == "sim_const" else None)
        return {"op": "simulate", "obj": k, "grid": g, "sched": sch}
    if kind == "rf":
        return {"op": "rf", "obj": k, "density": False}
    if kind == "rfd":
        return {"op": "rf", "obj": k, "density": True}
    if kind == "interp":
        return {"op": "interp", "obj": k}
    if kind == "repeat":
        return {"op": "repeat", "obj": k}
    raise ValueError(kind)


def _draw_fault_op(rng, fk, k, ospec, fluids, grids, last_grid=None):
    ideal = ospec["cls"] == "IdealReservoir"
    g = rng.choice("ABC")
    if last_grid in ("A", "B") and rng.random() < 0.5:
        # same length as the run whose results the object currently holds (buffers may be reused in place)
        g = rng.choice(["A", "B"])
    n = len(grids[g]["t"])
    fs = fluids[ospec["fluid"]] if ospec.get("fluid") is not None else None
    pf = ospec["pf"] if not isinstance(ospec["pf"], list) else ospec["pf"][0]
    if fk == "F-reject-len":
        if ideal or fs is None:
            return {"op": "simulate", "obj": k, "grid": g, "sched": None, "fault": {"kind": "F-reject-type", "how": "list"}}
        m = rng.choice([0, max(0, n - 1), n + 1, 2 * n])
        sch = world.draw_schedule(rng, fs, pf, m, kind=rng.choice(["const", "random"])) if m else {"kind": "empty", "v": []}
        return {"op": "simulate", "obj": k, "grid": g, "sched": sch, "fault": {"kind": "F-reject-len"}}
    if fk == "F-reject-range":
        if ideal or fs is None:
            return {"op": "simulate", "obj": k, "grid": g, "sched": None, "fault": {"kind": "F-reject-type", "how": "list"}}
        sch = world.draw_schedule(rng, fs, pf, n, kind="const")
        j = rng.randrange(n)
        sch["v"][j] = float(fs["_p_hi"] * 1.5 + 10) if rng.random() < 0.5 else float(fs["_p_lo"] * 0.5 - 1)
        sch["kind"] = "out_of_range"
        return {"op": "simulate", "obj": k, "grid": g, "sched": sch, "fault": {"kind": "F-reject-range"}}
    if fk == "F-reject-type":
        how = "list" if ideal else rng.choice(["none", "scalar"])
        return {"op": "simulate", "obj": k, "grid": g, "sched": None, "fault": {"kind": "F-reject-type", "how": how}}
    if fk == "F-crash-line":
        target = rng.choice(["simulate", "simulate", "simulate", "rf", "rfd", "interp"])
        if target == "simulate":
            u = rng.random()
            if u < 0.35:
                # relative to the END of the call (where results are published): resolved at run time by a
                # counting dry run of the same call on a throw-away fresh object
                return {"op": "simulate", "obj": k, "grid": g, "sched": None,
                        "fault": {"kind": "F-crash-line", "at": 0, "from_end": rng.randrange(0, 5)}}
            at = rng.randrange(1, 16) if u < 0.65 else rng.randrange(1, 12 * n + 20)
            return {"op": "simulate", "obj": k, "grid": g, "sched": None, "fault": {"kind": "F-crash-line", "at": at}}
        at = rng.randrange(1, 25)
        if target == "interp":
            return {"op": "interp", "obj": k, "fault": {"kind": "F-crash-line", "at": at}}
        return {"op": "rf", "obj": k, "density": target == "rfd", "fault": {"kind": "F-crash-line", "at": at}}
    if fk == "F-alpha-raise":
        # the shared fluid's diffusivity lookup raises part-way through the run (a dependency of simulate other
        # than the linear solver); the ideal class never calls it, so there this is simply a plain simulate
        return {"op": "simulate", "obj": k, "grid": g, "sched": None,
                "fault": {"kind": "F-alpha-raise", "call": rng.randrange(1, max(2, 2 * n))}}
    if fk == "F-solver-raise":
        call = rng.randrange(0, max(1, n - 1))
        return {"op": "simulate", "obj": k, "grid": g, "sched": None,
                "fault": {"kind": "F-solver-raise", "call": call,
                          "exc": rng.choice(["RuntimeError", "RuntimeError", "MemoryError", "KeyboardInterrupt"])}}
    return None


# =========================================================================== execute
def _digest(*parts):
    h = hashlib.blake2b(digest_size=10)
    for p in parts:
        if isinstance(p, np.ndarray):
            h.update(str(p.shape).encode())
            h.update(np.ascontiguousarray(p).tobytes())
        else:
            h.update(repr(p).encode())
        h.update(b"|")
    return h.hexdigest()


def _arr_eq(a, b):
    """(equal, rounding_only)"""
    try:
        a = np.asarray(a, dtype=float)
        b = np.asarray(b, dtype=float)
    except Exception:  # noqa: BLE001
        return (False, False)
    if a.shape != b.shape:
        return (False, False)
    if np.array_equal(a, b, equal_nan=True):
        return (True, False)
    with np.errstate(all="ignore"):
        scale = max(1e-300, float(np.nanmax(np.abs(a))) if a.size else 0.0, float(np.nanmax(np.abs(b))) if b.size else 0.0)
        nan_same = np.array_equal(np.isnan(a), np.isnan(b))
        d = np.nanmax(np.abs(a - b)) if a.size else 0.0
    if nan_same and d <= 1e-12 * scale:
        return (True, True)
    return (False, False)


class Out:
    __slots__ = ("ok", "val", "exc")

    def __init__(self, ok, val=None, exc=None):
        self.ok, self.val, self.exc = ok, val, exc

    def brief(self):
        if self.ok:
            return ("ok", _digest(self.val) if isinstance(self.val, np.ndarray) else repr(self.val))
        return ("exc", self.exc)


def _probe_grid(scn):
    ts = set()
    for g in scn["grids"].values():
        t = np.asarray(g["t"], dtype=float)
        ts.update(t.tolist())
        ts.update((0.5 * (t[1:] + t[:-1])).tolist())
        ts.add(float(t[0]) - 1.0)
        ts.add(float(t[-1]) + 1.0)
        ts.add(float(t[-1]) * 2 + 3.0)
    return np.array(sorted(ts), dtype=float)


class Runner:
    """Executes one scenario against the real library, maintaining the references."""

    def __init__(self, ns, scn, stats=None):
        self.ns = ns
        self.scn = scn
        self.repo_root = ns.repo_root
        self.log = []
        self.violations = []
        self.probes = {}
        self.oracle_evals = {}
        self.faults_fired = {}
        self.transitions = set()
        self.steps_simulated = 0
        self.sim_time = 0.0
        self.solver_calls = 0
        self.probe_t = _probe_grid(scn)
        self.ngrams = []

    # ------------------------------------------------------------- helpers
    def probe(self, name, n=1):
        self.probes[name] = self.probes.get(name, 0) + n

    def count(self, clause):
        self.oracle_evals[clause] = self.oracle_evals.get(clause, 0) + 1

    def _fresh(self, k):
        """New fluid(s) from pristine specs, new reservoir from constructor args."""
        ospec = self.scn["objects"][k]
        lib = self.ns.fresh()  # cold module-level / class-level state for every reference
        fl = None
        if ospec.get("fluid") is not None:
            fl, _ = world.make_fluid(lib, self.scn["fluids"][ospec["fluid"]], self.repo_root)
        cls = getattr(lib, ospec["cls"])
        pf = ospec["pf"]
        if isinstance(pf, list):
            pf = np.array(pf, dtype=float)
        return cls(int(ospec["nx"]), pf, float(ospec["pi"]), fl)

    def _args(self, op, shared=False):
        how = (op.get("fault") or {}).get("how")
        if shared and how is None and op.get("container") != "list":
            pool = self.__dict__.setdefault("_shared_args", {})
            kt = ("t", op["grid"])
            if kt not in pool:
                pool[kt] = world.grid_array(self.scn["grids"][op["grid"]])
            sched = None
            if op.get("sched") is not None:
                ks = ("s", tuple(op["sched"]["v"]))
                if ks not in pool:
                    pool[ks] = np.array(op["sched"]["v"], dtype=float)
                sched = pool[ks]
            return pool[kt], sched
        t = world.grid_array(self.scn["grids"][op["grid"]])
        sched = None
        if op.get("sched") is not None:
            sched = np.array(op["sched"]["v"], dtype=float)
        if op.get("container") == "list" and how is None:
            t = [float(v) for v in t]
            if sched is not None:
                sched = [float(v) for v in sched]
        if how == "list":
            t = [float(v) for v in t]
        elif how == "none":
            t = None
        elif how == "scalar":
            t = float(t[-1])
        return t, sched

    def _call(self, res, op, fault=None, shared=False):
        """Execute op on res. Returns Out. BaseExceptions from injected faults are caught here."""
        kind = op["op"]

        def thunk():
            if kind == "simulate":
                t, sched = self._args(op, shared)
                if sched is None:
                    return res.simulate(t)
                return res.simulate(t, sched)
            if kind == "rf":
                return res.recovery_factor(density=True) if op.get("density") else res.recovery_factor()
            if kind == "interp":
                f = res.recovery_factor_interpolator()
                self._last_interp = f
                return np.asarray(f(self.probe_t), dtype=float)
            raise ValueError(kind)

        fired = None
        try:
            with warnings.catch_warnings():
                warnings.simplefilter("ignore")
                if fault and fault["kind"] == "F-crash-line":
                    at = int(fault["at"])
                    if "from_end" in fault and kind == "simulate":
                        at = max(1, self._count_events(op) - int(fault["from_end"]))
                    try:
                        val, _n = seams.CRASH.run(thunk, crash_at=at)
                    finally:
                        if seams.CRASH.where is not None:
                            fired = ("F-crash-line", seams.CRASH.where)
                elif fault and fault["kind"] == "F-alpha-raise":
                    fl = getattr(res, "fluid", None)
                    orig_alpha = getattr(fl, "alpha", None) if fl is not None else None
                    if orig_alpha is None:
                        val = thunk()
                    else:
                        cnt = {"n": 0}

                        def failing_alpha(*a, **k):
                            cnt["n"] += 1
                            if cnt["n"] == int(fault["call"]):
                                cnt["fired"] = True
                                raise ValueError("injected: diffusivity lookup failed")
                            return orig_alpha(*a, **k)

                        try:
                            fl.alpha = failing_alpha
                            val = thunk()
                        finally:
                            try:
                                fl.alpha = orig_alpha
                            except Exception:  # noqa: BLE001
                                pass
                            if cnt.get("fired"):
                                fired = ("F-alpha-raise", "fluid.alpha")
                elif fault and fault["kind"] == "F-solver-raise":
                    seams.SOLVER.begin(plan={int(fault["call"]): fault}, keep_matrices=False)
                    try:
                        val = thunk()
                    finally:
                        recs, f = seams.SOLVER.end()
                        self.solver_calls += len(recs)
                        if f:
                            fired = ("F-solver-raise", f[0]["solver"])
                else:
                    val = thunk()
            # simulate's return value is not part of the property (a tree may return None, self, the field ...)
            out = Out(True, None if (val is None or kind == "simulate") else np.array(val, dtype=float, copy=True))
        except seams.InjectedCrash:
            out = Out(False, exc="InjectedCrash")
        except (seams.InjectedSolverError, MemoryError) as e:
            out = Out(False, exc=type(e).__name__)
        except Exception as e:  # noqa: BLE001
            out = Out(False, exc=type(e).__name__)
        if fired:
            self.faults_fired[fired[0]] = self.faults_fired.get(fired[0], 0) + 1
        out_fired = fired is not None
        return out, out_fired

    def _count_events(self, op):
        """Line events of this simulate call on a throw-away fresh object (pure function of code + arguments)."""
        clone = self._fresh(op["obj"])
        t, sched = self._args(op)
        try:
            with warnings.catch_warnings():
                warnings.simplefilter("ignore")
                _, n = seams.CRASH.run(lambda: clone.simulate(t) if sched is None else clone.simulate(t, sched), crash_at=None)
            return n
        except Exception:  # noqa: BLE001
            return seams.CRASH.n

    @staticmethod
    def _state(res):
        # public attributes, however the tree stores them (plain attributes, properties over private state, ...);
        # a getter that raises means "not there"
        try:
            t = getattr(res, "time", None)
        except Exception:  # noqa: BLE001
            t = None
        try:
            pp = getattr(res, "pseudopressure", None)
        except Exception:  # noqa: BLE001
            pp = None
        try:
            t = None if t is None else np.array(t, dtype=float)
        except Exception:  # noqa: BLE001
            t = "unrepresentable"
        return t, (None if pp is None else np.asarray(pp, dtype=float))

    def _state_eq(self, a, b):
        res = []
        for name, x, y in (("time", a[0], b[0]), ("pseudopressure", a[1], b[1])):
            if x is None or y is None or isinstance(x, str) or isinstance(y, str):
                if not (x is None and y is None):
                    res.append(name)
                continue
            eq, rounding = _arr_eq(x, y)
            if rounding:
                self.probe("rounding_only_difference")
            if not eq:
                res.append(name)
        return res

    def _out_eq(self, a, b):
        if a.ok != b.ok:
            return "ok-vs-exc" if a.ok else "exc-vs-ok"
        if not a.ok:
            return None if a.exc == b.exc else "exc-type"
        if a.val is None or b.val is None:
            return None if (a.val is None and b.val is None) else "value"
        eq, rounding = _arr_eq(a.val, b.val)
        if rounding:
            self.probe("rounding_only_difference")
        return None if eq else "value"

    def violate(self, i, clause, op, differs, detail):
        self.violations.append({
            "step": i, "clause": clause, "op": _opkind(op), "differs": differs,
            "fingerprint": f"{clause}/{_opkind(op)}/{differs}", "detail": detail,
        })

    # ------------------------------------------------------------- main loop
    def run(self):
        ns, scn = self.ns.fresh(), self.scn  # the scenario's own instance of the library modules
        if scn.get("canary"):
            _install_canary(ns)               # objects under test only; references stay on the plain library
        fluids, tables = [], []
        for fs in scn["fluids"]:
            fl, tb = world.make_fluid(ns, fs, self.repo_root)
            fluids.append(fl)
            tables.append(tb)
        self.fluid_digest0 = [self._fluid_surface(f) for f in fluids]
        self.table_digest0 = [world.table_digest(t) for t in tables]
        objs = [world.make_reservoir(ns, o, fluids) for o in scn["objects"]]
        nobj = len(objs)
        if scn.get("twin_objects"):
            self.probe("twin_objects_equal_constructor_arguments")
        if scn.get("shape") == "burst":
            self.probe("simulate_burst_between_reads")
        cands = [[] for _ in range(nobj)]        # live reference candidates per object
        completed = [False] * nobj               # a simulate has completed on the reference side
        pending_fail = [False] * nobj            # last simulate attempt failed / was cut short
        pending_async = [False] * nobj           # ... by an asynchronous interrupt (advisory B2 only)
        ever_failed = [False] * nobj
        last_op = [None] * nobj
        last_out = [None] * nobj
        prev_plain = [False] * nobj              # the immediately preceding op on this object was fault-free
        abstract = [dict(done=False, cache="none", cache_cur=False, failed=False, sched=False) for _ in range(nobj)]
        last_sim_kind = [None] * nobj
        touched_fluid_by = {}
        last_completed_op = [None] * nobj
        live_interps = [[] for _ in range(nobj)]  # (interpolator, its output when built) since the last simulate attempt

        for i, op0 in enumerate(scn["ops"]):
            k = op0["obj"]
            op = op0
            is_repeat = op0["op"] == "repeat"
            if is_repeat:
                if last_op[k] is None:
                    self.log.append((i, k, "repeat", "noop"))
                    continue
                op = dict(last_op[k])
                op.pop("fault", None)
            fault = op.get("fault")
            real = objs[k]
            ab = abstract[k]
            ab_before = (ab["done"], ab["cache"], ab["cache_cur"], ab["failed"], ab["sched"])
            okind = _opkind(op0)
            self.transitions.add((ab_before, okind))
            self.ngrams.append(okind)
            fi = scn["objects"][k].get("fluid")
            if fi is not None:
                s = touched_fluid_by.setdefault(fi, [])
                if s and s[-1] != k:
                    self.probe("two_objects_one_fluid_interleaved")
                s.append(k)

            self._last_interp = None
            out_r, fired = self._call(real, op, fault if fault and fault["kind"] in ("F-crash-line", "F-solver-raise", "F-alpha-raise") else None,
                                      shared=bool(scn.get("share_arrays")))
            st_r = self._state(real)
            # an interpolator, once built, is a function: later recovery / interpolator calls must not change
            # what it returns (tracked until the next simulate attempt on that object)
            if op["op"] == "simulate":
                live_interps[k] = []
            else:
                for f_old, v_old in live_interps[k][-3:]:
                    self.count("R-interp-stable")
                    try:
                        v_now = np.asarray(f_old(self.probe_t), dtype=float)
                        same = _arr_eq(v_now, v_old)[0]
                    except Exception:  # noqa: BLE001
                        same = False
                    if not same and not self.violations:
                        self.violate(i, "R-interp-stable", op0, "value",
                                     {"note": "an interpolator built earlier returns something else after this call",
                                      **self._ctx(k, last_sim_kind)})
                if self._last_interp is not None and out_r.ok:
                    live_interps[k].append((self._last_interp, out_r.val))
            injected = fault is not None and fault["kind"] in ("F-crash-line", "F-solver-raise", "F-alpha-raise")
            if fault is not None and not injected:
                # natural rejection: count it as fired when the library actually raised
                if not out_r.ok:
                    self.faults_fired[fault["kind"]] = self.faults_fired.get(fault["kind"], 0) + 1

            if op["op"] == "simulate":
                fresh = self._fresh(k)
                out_f, _ = self._call(fresh, op, None)  # reference never sees injected faults
                st_f = self._state(fresh)
                if out_f.ok:
                    t = np.asarray(self.scn["grids"][op["grid"]]["t"])
                    self.steps_simulated += len(t) - 1
                    self.sim_time += float(t[-1] - t[0])
                if injected and fired and not out_r.ok:
                    # operation cut short
                    pending_async[k] = pending_async[k] or fault["kind"] == "F-crash-line" or fault.get("exc") == "KeyboardInterrupt"
                    pending_fail[k] = True
                    ever_failed[k] = True
                    ab["failed"] = True
                    if st_r[0] is not None and st_r[1] is not None and cands[k]:
                        st_c = self._state(cands[k][0])
                        if self._state_eq(st_r, st_c):
                            self.probe("mixed_epoch_object")
                    if fault["kind"] == "F-crash-line" and out_f.ok and len(cands[k]) < 6:
                        # an interrupt can land AFTER the results were published (e.g. on a trailing `return self`):
                        # the call raised but took effect, so "as if it had completed" is a legitimate reference too
                        cands[k] = cands[k] + [fresh]
                        completed[k] = True
                        self.probe("interrupted_simulate_may_have_completed")
                elif out_f.ok:
                    # reference completed: the real object must have completed identically
                    self.count("A-sim" if not ever_failed[k] else "B1-sim")
                    d = self._out_eq(out_r, out_f)
                    if d:
                        self.violate(i, "A-sim" if not ever_failed[k] else "B1-sim", op0, d,
                                     {"real": out_r.brief(), "fresh": out_f.brief(), **self._ctx(k, last_sim_kind)})
                    else:
                        sd = self._state_eq(st_r, st_f)
                        if sd:
                            self.violate(i, "A-sim" if not ever_failed[k] else "B1-sim", op0, "state:" + "+".join(sd),
                                         {"max_abs_diff": _maxdiff(st_r, st_f), **self._ctx(k, last_sim_kind)})
                    cands[k] = [fresh]
                    last_completed_op[k] = {kk: vv for kk, vv in op.items() if kk != "fault"}
                    completed[k] = True
                    pending_fail[k] = False
                    pending_async[k] = False
                    g_prev = last_sim_kind[k]
                    if g_prev is not None:
                        n_prev, n_now = g_prev[1], len(self.scn["grids"][op["grid"]]["t"])
                        if g_prev[0] != op["grid"]:
                            self.probe("same_length_regrid" if n_prev == n_now else "other_length_regrid")
                        if g_prev[2] and op.get("sched") is None:
                            self.probe("schedule_then_scalar")
                    if ab["cache"] != "none":
                        ab["cache_cur"] = False
                    ab["done"] = True
                    ab["failed"] = False
                    ab["sched"] = op.get("sched") is not None
                    last_sim_kind[k] = (op["grid"], len(self.scn["grids"][op["grid"]]["t"]), op.get("sched") is not None)
                else:
                    # rejected on the reference too: a failed attempt
                    if out_r.ok:
                        self.violate(i, "A-sim", op0, "ok-vs-exc", {"fresh": out_f.brief()})
                    elif not injected and out_r.exc != out_f.exc:
                        self.violate(i, "A-sim", op0, "exc-type", {"real": out_r.exc, "fresh": out_f.exc})
                    pending_fail[k] = True  # (pending_async stays as it is: sticky until a simulate completes)
                    ever_failed[k] = True
                    ab["failed"] = True
                    if st_r[0] is not None and st_r[1] is not None and cands[k]:
                        if self._state_eq(st_r, self._state(cands[k][0])):
                            self.probe("mixed_epoch_object")
            else:
                # ---------------------------------------------------------- read op
                crashed_read = injected and fired and not out_r.ok
                if not completed[k]:
                    if not pending_fail[k]:
                        # pristine typestate: identical to a pristine fresh object
                        fresh = self._fresh(k)
                        out_f, _ = self._call(fresh, op, None)
                        if not crashed_read:
                            self.count("A-pristine")
                            d = self._out_eq(out_r, out_f)
                            if d:
                                self.violate(i, "A-pristine", op0, d, {"real": out_r.brief(), "fresh": out_f.brief()})
                    else:
                        self.count("B3-typestate")
                        if out_r.ok:
                            self.violate(i, "B3-typestate", op0, "ok-vs-exc",
                                         {"real": out_r.brief(), "note": "no simulate ever completed"})
                else:
                    if ab["cache"] != "none" and not ab["cache_cur"] and op["op"] == "interp":
                        self.probe("cache_survived_simulate")
                    if ab["cache"] == "density" and ab["cache_cur"] and op["op"] == "interp":
                        self.probe("density_cache_then_interpolator")
                    if crashed_read:
                        # the read may or may not have taken effect: branch the references
                        new = []
                        for c in cands[k]:
                            new.append(c)
                            alt = self._clone_ref(c)
                            self._call(alt, op, None)
                            new.append(alt)
                        cands[k] = new[:8]
                    else:
                        survivors, first_diff, first_f = [], None, None
                        self.count("B2-between" if pending_fail[k] else ("A-read" if not ever_failed[k] else "B1-read"))
                        need_undo = len(cands[k]) > 1 or pending_fail[k]
                        for ci, c in enumerate(list(cands[k])):
                            saved = copy.deepcopy(c) if need_undo else None
                            out_f, _ = self._call(c, op, None)
                            d = self._out_eq(out_r, out_f)
                            if d is None:
                                sd = self._state_eq(st_r, self._state(c)) if not pending_fail[k] else []
                                if sd:
                                    d = "state:" + "+".join(sd)
                            if d is None:
                                survivors.append(c)
                            else:
                                if first_diff is None:
                                    first_diff, first_f = d, out_f
                                if saved is not None:
                                    cands[k][ci] = saved   # undo the mirrored read on a candidate that did not match
                        if survivors:
                            cands[k] = survivors
                        elif pending_fail[k] and not out_r.ok:
                            pass  # B2: raising between a failed simulate and the next completed one is allowed
                        elif pending_fail[k] and pending_async[k]:
                            # the statement is silent on asynchronous interrupts: recorded, not failed
                            self.probe("advisory_stale_read_after_interrupt")
                        else:
                            clause = "B2-between" if pending_fail[k] else ("A-read" if not ever_failed[k] else "B1-read")
                            self.violate(i, clause, op0, first_diff,
                                         {"real": out_r.brief(), "fresh": first_f.brief() if first_f else None,
                                          "max_abs_diff": _valdiff(out_r, first_f), **self._ctx(k, last_sim_kind)})
                            # keep going with the unmodified candidates
                    if not crashed_read and op["op"] == "rf" and out_r.ok:
                        ab["cache"] = "density" if op.get("density") else "flux"
                        ab["cache_cur"] = True
            # repeat clause: same call, same arguments -> same result
            if is_repeat and last_out[k] is not None and not injected and prev_plain[k]:
                self.count("R-repeat")
                d = self._out_eq(out_r, last_out[k])
                if d:
                    self.violate(i, "R-repeat", op0, d, {"first": last_out[k].brief(), "second": out_r.brief()})
            if not is_repeat and fault is None:
                last_op[k] = op
            prev_plain[k] = fault is None
            if fault is None:
                last_out[k] = out_r
            if self.violations:
                break  # later differences are consequences of the first
            self.log.append((i, k, okind, _digest(op.get("grid"), (op.get("sched") or {}).get("v"), op.get("density")),
                             out_r.brief(), _digest(st_r[0]) if isinstance(st_r[0], np.ndarray) else str(st_r[0]),
                             _digest(st_r[1]) if st_r[1] is not None else None, bool(fired)))
        # auxiliary: shared fluids and caller tables untouched
        for key, arr in self.__dict__.get("_shared_args", {}).items():
            self.probe("shared_argument_arrays_used")
            want = world.grid_array(scn["grids"][key[1]]) if key[0] == "t" else np.array(key[1], dtype=float)
            if not np.array_equal(np.asarray(arr), want):
                self.probe("caller_argument_array_changed")
        for j, f in enumerate(fluids):
            if self._fluid_surface(f) != self.fluid_digest0[j]:
                self.probe("shared_fluid_surface_changed")
            if world.table_digest(tables[j]) != self.table_digest0[j]:
                self.probe("caller_table_changed")
        return self

    def _ctx(self, k, last_sim_kind):
        return {"cls": self.scn["objects"][k]["cls"], "prev_sim": last_sim_kind[k]}

    def _clone_ref(self, c):
        return copy.deepcopy(c)

    def _fluid_surface(self, f):
        try:
            cols = sorted(f.pvt_props.keys())
            parts = [np.asarray(f.pvt_props[c], dtype=float) for c in cols]
            pr = np.linspace(0, 1.2, 7)
            return _digest(cols, *parts, np.asarray(f.m_i, dtype=float), np.asarray(f.alpha(pr), dtype=float))
        except Exception as e:  # noqa: BLE001
            return "err:" + type(e).__name__

    def digest(self):
        return hashlib.sha256(repr(self.log).encode()).hexdigest()


def _opkind(op):
    k = op["op"]
    f = op.get("fault")
    if k == "simulate":
        base = "sim" + op.get("grid", "?")
        if op.get("sched") is not None:
            base += "+" + ("const" if op["sched"]["kind"] == "const" else "sched")
        if f:
            base += "!" + f["kind"]
        return base
    if k == "rf":
        base = "rfd" if op.get("density") else "rf"
    else:
        base = k
    if f:
        base += "!" + f["kind"]
    return base


def _maxdiff(a, b):
    out = {}
    for name, x, y in (("time", a[0], b[0]), ("pseudopressure", a[1], b[1])):
        try:
            if x is not None and y is not None and np.shape(x) == np.shape(y):
                out[name] = float(np.nanmax(np.abs(np.asarray(x) - np.asarray(y))))
            else:
                out[name] = f"shape {np.shape(x) if x is not None else None} vs {np.shape(y) if y is not None else None}"
        except Exception:  # noqa: BLE001
            out[name] = "?"
    return out


def _valdiff(a, b):
    try:
        if a is not None and b is not None and a.ok and b.ok and a.val.shape == b.val.shape:
            return float(np.nanmax(np.abs(a.val - b.val)))
    except Exception:  # noqa: BLE001
        pass
    return None


def execute(ns, scn):
    return Runner(ns, scn).run()


def nontrivial(scn, runner):
    """At least one completed simulate followed by at least one observation."""
    seen_sim = set()
    for op in scn["ops"]:
        if op["op"] == "simulate" and not op.get("fault"):
            seen_sim.add(op["obj"])
        elif op["op"] in ("rf", "interp", "repeat") and op["obj"] in seen_sim:
            return True
    return False


def history_key(scn):
    return _digest([(o["cls"], o["nx"]) for o in scn["objects"]],
                   [(_opkind(op), op["obj"]) for op in scn["ops"]],
                   [len(g["t"]) for g in scn["grids"].values()])


# =========================================================================== module interface
ID = "C10"
LEVEL = "exploration"


CANARY = ("the scenario's library instance is patched so that simulate() puts the previously cached recovery back "
          "(the defect repaired in 3c20ca9): histories with a cached recovery, a second simulate and an interpolator must be flagged")


def _install_canary(lib):
    for name in ("IdealReservoir", "SinglePhaseReservoir"):
        cls = getattr(lib, name)
        orig = cls.__dict__.get("simulate")
        if orig is None:
            continue

        def sim(self, *a, _orig=orig, **k):
            try:
                stale = getattr(self, "recovery", None)
            except Exception:  # noqa: BLE001
                stale = None
            r = _orig(self, *a, **k)
            if stale is not None:
                try:
                    self.recovery = stale
                except Exception:  # noqa: BLE001
                    pass
            return r

        setattr(cls, "simulate", sim)


def scenario_for(k, batch_seed, tier, repo_root, opts=None):
    from dst import seeds

    config = "B" if k % 3 == 2 else "A"
    rng = seeds.rng_for(ID, batch_seed, k)
    opts = dict(opts or {}, tier=tier)
    scn = generate(rng, repo_root, config, opts)
    if tier == "thorough" and config == "B" and k % 15 == 2:
        # sweep every crash point of one operation instead of one random point
        idx = [i for i, op in enumerate(scn["ops"]) if (op.get("fault") or {}).get("kind") == "F-crash-line"]
        if idx:
            scn["sweep"] = {"op_index": idx[0]}
    if (opts or {}).get("canary"):
        scn["canary"] = True
        scn.pop("sweep", None)
    return scn


def generate_from_rng(rng, repo_root, tier="thorough", opts=None):
    return generate(rng, repo_root, "B" if rng.random() < 0.4 else "A", dict(opts or {}, tier=tier))


class SweepResult:
    def __init__(self, base, runs, violations):
        self.base, self.runs, self.violations = base, runs, violations
        for name in ("probes", "oracle_evals", "faults_fired", "transitions", "ngrams", "steps_simulated", "sim_time", "solver_calls", "log"):
            setattr(self, name, getattr(base, name))
        for r in runs:
            for kx, v in r.faults_fired.items():
                self.faults_fired[kx] = self.faults_fired.get(kx, 0) + v
            for kx, v in r.probes.items():
                self.probes[kx] = self.probes.get(kx, 0) + v
            for kx, v in r.oracle_evals.items():
                self.oracle_evals[kx] = self.oracle_evals.get(kx, 0) + v
            self.transitions |= r.transitions
        self.probes["crash_points_swept"] = self.probes.get("crash_points_swept", 0) + len(runs)

    def digest(self):
        h = hashlib.sha256(self.base.digest().encode())
        for r in self.runs:
            h.update(r.digest().encode())
        return h.hexdigest()


def execute(ns, scn):  # noqa: F811
    if not scn.get("sweep"):
        return Runner(ns, scn).run()
    j = scn["sweep"]["op_index"]
    base_scn = {k: v for k, v in scn.items() if k != "sweep"}
    base = Runner(ns, base_scn).run()
    runs, viol = [], list(base.violations)
    at = 1
    while at <= 400:  # a count, not a clock: the swept set must not depend on machine speed
        s2 = json.loads(json.dumps(base_scn))
        s2["ops"][j]["fault"] = {"kind": "F-crash-line", "at": at}
        r = Runner(ns, s2).run()
        if not r.faults_fired.get("F-crash-line") and at > 1:
            break  # past the last line event of that operation
        runs.append(r)
        if r.violations and not viol:
            v = dict(r.violations[0])
            v["sweep_at"] = at
            viol.append(v)
        at += 1
    out = SweepResult(base, runs, viol)
    return out


import json  # noqa: E402


def new_aggregate():
    return {"runs": 0, "config": {}, "strict": 0, "ops": 0, "opkinds": {}, "faults_fired": {}, "probes": {}, "oracle_evals": {},
            "transitions": set(), "ngrams": set(), "hist": set(), "hist_nontrivial": set(),
            "steps": 0, "sim_time": 0.0, "solver_calls": 0, "samples": [], "classes": {}, "violating_runs": 0}


def aggregate(agg, scn, res):
    agg["runs"] += 1
    agg["config"][scn["config"]] = agg["config"].get(scn["config"], 0) + 1
    agg["strict"] += 1 if scn.get("strict_alphabet") else 0
    kinds = [_opkind(op) for op in scn["ops"]]
    agg["ops"] += len(kinds)
    for kd in kinds:
        agg["opkinds"][kd] = agg["opkinds"].get(kd, 0) + 1
    for o in scn["objects"]:
        agg["classes"][o["cls"]] = agg["classes"].get(o["cls"], 0) + 1
    for n in (1, 2, 3, 4):
        for i in range(len(kinds) - n + 1):
            agg["ngrams"].add(tuple(kinds[i:i + n]))
    for kx, v in res.faults_fired.items():
        agg["faults_fired"][kx] = agg["faults_fired"].get(kx, 0) + v
    for kx, v in res.probes.items():
        agg["probes"][kx] = agg["probes"].get(kx, 0) + v
    for kx, v in res.oracle_evals.items():
        agg["oracle_evals"][kx] = agg["oracle_evals"].get(kx, 0) + v
    agg["transitions"] |= res.transitions
    hk = history_key(scn)
    agg["hist"].add(hk)
    if nontrivial(scn, res):
        agg["hist_nontrivial"].add(hk)
    agg["steps"] += res.steps_simulated
    agg["sim_time"] += res.sim_time
    agg["solver_calls"] += res.solver_calls
    if res.violations:
        agg["violating_runs"] += 1
    if len(agg["samples"]) < 3:
        agg["samples"].append(sample_repr(scn))


def merge(a, b):
    a["timeouts"] = a.get("timeouts", 0) + b.get("timeouts", 0)
    a["setup_errors"] = a.get("setup_errors", 0) + b.get("setup_errors", 0)
    for key in ("runs", "strict", "ops", "steps", "solver_calls", "violating_runs"):
        a[key] += b[key]
    a["sim_time"] += b["sim_time"]
    for key in ("config", "opkinds", "faults_fired", "probes", "classes", "oracle_evals"):
        for kx, v in b[key].items():
            a[key][kx] = a[key].get(kx, 0) + v
    for key in ("transitions", "ngrams", "hist", "hist_nontrivial"):
        a[key] |= b[key]
    for s in b["samples"]:
        if len(a["samples"]) < 4:
            a["samples"].append(s)


def sample_repr(scn):  # (share_arrays is shown in the history line when set)
    return {"config": scn["config"], "share_arrays": bool(scn.get("share_arrays")),
            "objects": [f'{o["cls"]}(nx={o["nx"]}, pf={o["pf"]}, pi={o["pi"]}, fluid={o.get("fluid")})' for o in scn["objects"]],
            "fluids": [f'{f["family"]}@p_i={f["p_i"]}' for f in scn["fluids"]],
            "grid_lengths": {g: len(v["t"]) for g, v in scn["grids"].items()},
            "history": [f'obj{op["obj"]}.{_opkind(op)}' for op in scn["ops"]]}


def shrink_candidates(scn):
    """Yield smaller scenarios, most aggressive first."""
    import copy

    ops = scn["ops"]
    n = len(ops)
    # drop halves, then single ops
    if n > 2:
        for lo, hi in ((0, n // 2), (n // 2, n)):
            c = copy.deepcopy(scn)
            c.pop("sweep", None)
            c["ops"] = ops[:lo] + ops[hi:]
            yield c
    for i in range(n):
        c = copy.deepcopy(scn)
        c.pop("sweep", None)
        c["ops"] = ops[:i] + ops[i + 1:]
        yield c
    # drop unreferenced objects
    used = sorted({op["obj"] for op in ops})
    if len(used) < len(scn["objects"]):
        c = copy.deepcopy(scn)
        remap = {old: new for new, old in enumerate(used)}
        c["objects"] = [scn["objects"][u] for u in used]
        for op in c["ops"]:
            op["obj"] = remap[op["obj"]]
        yield c
    # drop unreferenced fluids
    usedf = sorted({o["fluid"] for o in scn["objects"] if o.get("fluid") is not None})
    if len(usedf) < len(scn["fluids"]):
        c = copy.deepcopy(scn)
        remap = {old: new for new, old in enumerate(usedf)}
        c["fluids"] = [scn["fluids"][u] for u in usedf]
        for o in c["objects"]:
            if o.get("fluid") is not None:
                o["fluid"] = remap[o["fluid"]]
        yield c
    # simpler arguments
    if scn.get("share_arrays"):
        c = copy.deepcopy(scn)
        c.pop("share_arrays")
        yield c
    for i, o in enumerate(scn["objects"]):
        if o["nx"] > 3:
            c = copy.deepcopy(scn)
            c["objects"][i]["nx"] = 3 if o["nx"] <= 6 else o["nx"] // 2
            yield c
    for i, op in enumerate(ops):
        if op.get("sched") is not None and not op.get("fault"):
            c = copy.deepcopy(scn)
            c["ops"][i]["sched"] = None
            yield c
        if op.get("density"):
            c = copy.deepcopy(scn)
            c["ops"][i]["density"] = False
            yield c
        if op.get("container"):
            c = copy.deepcopy(scn)
            c["ops"][i].pop("container")
            yield c
        if op["op"] == "repeat":
            continue
        f = op.get("fault")
        if f and f["kind"] == "F-crash-line" and f["at"] > 1 and "from_end" not in f:
            for at in (1, f["at"] // 2, f["at"] - 1):
                if 1 <= at < f["at"]:
                    c = copy.deepcopy(scn)
                    c["ops"][i]["fault"]["at"] = at
                    yield c
    # shorter grids (A and B keep equal lengths, C keeps a different one; schedules are cut to fit)
    nA = len(scn["grids"]["A"]["t"])
    nC = len(scn["grids"]["C"]["t"])
    for newA, newC in ((2, 3), (3, 2), (max(2, nA // 2), nC), (nA, max(2, nC // 2))):
        if newA == newC or (newA, newC) == (nA, nC) or newA > nA or newC > nC:
            continue
        c = copy.deepcopy(scn)
        for g, m in (("A", newA), ("B", newA), ("C", newC)):
            c["grids"][g]["t"] = c["grids"][g]["t"][:m]
        ok = True
        for op in c["ops"]:
            if op.get("sched") is not None:
                m = len(c["grids"][op["grid"]]["t"])
                old_n = len(scn["grids"][op["grid"]]["t"])
                delta = len(op["sched"]["v"]) - old_n
                want = m + delta
                if want < 0 or want > len(op["sched"]["v"]):
                    ok = False
                    break
                op["sched"]["v"] = op["sched"]["v"][:want]
        if ok:
            yield c
    # plain grid values (same lengths): A = 0.1*i, B = 0.05 + 0.15*i, C = 0.2*i
    for g, (a0, da) in (("A", (0.0, 0.1)), ("B", (0.05, 0.15)), ("C", (0.0, 0.2))):
        tt = scn["grids"][g]["t"]
        plain = [a0 + da * i for i in range(len(tt))]
        if tt != plain and scn["grids"][g].get("dtype") is None:
            c = copy.deepcopy(scn)
            c["grids"][g] = {"family": "plain", "t": plain}
            yield c
    # simplest fluid
    for i, f in enumerate(scn["fluids"]):
        if f["family"] != "gas" or f.get("n", 0) > 4:
            c = copy.deepcopy(scn)
            c["fluids"][i] = {"family": "gas", "n": 4, "p_lo": 100.0, "p_hi": float(max(f["_p_hi"], f["p_i"])),
                              "a": 0.1, "b": 0.05, "c": 0.5, "mu0": 0.02, "as": "dict", "p_i": f["p_i"],
                              "_p_lo": 100.0, "_p_hi": float(max(f["_p_hi"], f["p_i"]))}
            if all(not isinstance(o["pf"], list) and o["pf"] >= 100.0 for o in scn["objects"] if o.get("fluid") == i):
                yield c


def fingerprint_class(fp):
    return fp


PROBES_EXPECTED = ("cache_survived_simulate", "schedule_then_scalar", "same_length_regrid", "other_length_regrid",
                   "density_cache_then_interpolator", "two_objects_one_fluid_interleaved")


def evidence(out, tier, seed, wall, wall_batch, cross, known_hits, violations, workers, ns):
    agg = out["agg"]
    runs = out["done"]
    warn = [f"probe {p} never hit" for p in PROBES_EXPECTED if not agg["probes"].get(p)]
    if agg["config"].get("B") and not agg["probes"].get("mixed_epoch_object"):
        pass  # expected to stay at zero on a tree that publishes results atomically
    return {
        "property_id": ID, "tier": tier, "seed": seed, "level": LEVEL, "wall_s": round(wall, 2),
        "violations": violations,
        "coverage": {
            "evaluations": runs,
            "distinct_nontrivial": len(agg["hist_nontrivial"]),
            "rule": "one evaluation = one seeded simulated run: a world (1-2 real fluids, 1-4 real reservoir objects) driven "
                    "through an interleaved history of 2-12 API calls (+ injected faults in configuration B), every op "
                    "compared with the fresh-object reference. distinct = distinct (object classes+nx, per-op kind/object "
                    "sequence, grid lengths) digests; non-trivial = contains a completed simulate followed by at least one "
                    "observation on the same object.",
            "samples": agg["samples"],
            "planned_runs": out["planned"],
            "runs_by_configuration": agg["config"],
            "runs_with_strict_quantifier_alphabet": agg["strict"],
            "operations_executed": agg["ops"],
            "operation_kinds": dict(sorted(agg["opkinds"].items())),
            "reservoir_classes": agg["classes"],
            "distinct_histories": len(agg["hist"]),
            "distinct_opkind_ngrams_le4": len(agg["ngrams"]),
            "distinct_abstract_state_op_transitions": len(agg["transitions"]),
            "time_steps_simulated": agg["steps"],
            "scaled_simulated_time_covered": round(agg["sim_time"], 3),
            "solver_calls_intercepted_in_fault_ops": agg["solver_calls"],
            "faults_fired": dict(sorted(agg["faults_fired"].items())),
            "probes": dict(sorted(agg["probes"].items())),
            "oracle_evaluations_by_clause": dict(sorted(agg["oracle_evals"].items())),
            "runs_per_hour": int(runs / max(1e-9, wall_batch) * 3600),
            "seeds_per_hour": int(runs / max(1e-9, wall_batch) * 3600),
            "workers": workers,
            "determinism_cross_check": cross,
            "batch_digest": __import__("dst.engine", fromlist=["batch_digest"]).batch_digest(out["digests"]),
            "known_finding_runs": known_hits,
            "violating_runs": agg["violating_runs"],
            "scenarios_timed_out_inconclusive": agg.get("timeouts", 0),
            "scenarios_not_set_up_inconclusive": agg.get("setup_errors", 0),
            "warnings": warn,
            "real_vs_stub": {
                "real": "all of bluebonnet (reservoir, flowproperties), scipy interp1d / sparse.diags / cumulative_trapezoid / linear solver",
                "stub": "linear solver raises on demand in F-solver-raise ops only; sys.settrace line counter raises InjectedCrash in F-crash-line ops only",
                "model": "fresh-object reference (same library code, no history)",
            },
            "repo_root": ns.repo_root,
        },
        "assumptions": [
            "the reference is the same library code on a fresh object: defects present in every single simulation are invisible here (C01-C04)",
            "the harness never writes into an array it handed to simulate (caller-side mutation is outside the alphabet); in 40 % of the scenarios the SAME array objects are handed over again on later calls and to other objects, references always get private copies",
            "B2 after an asynchronous interrupt (F-crash-line, KeyboardInterrupt in the solver) is advisory: counted in probes, not failed",
        ],
    }
