"""C04 — each time level is the backward-Euler update; no unconverged solve is accepted.

Configuration A (pass-through): real ``simulate`` with the real solver recorded at the
seam; afterwards every stored step is checked against an independent 20-line step model
(A2) and every recorded convergence flag is inspected (A3).

Configuration B (fault enumeration at the solver seam): the same world is re-simulated
with one solver fault per run at chosen call positions (first / last / interior in the
quick tier, every position in the thorough tier).  Oracle: the simulate call raises, or
emits a solver-related warning, or every stored level still satisfies A2 — completing
quietly with a level that fails A2 is the violation.
"""

from __future__ import annotations

import hashlib
import json
import warnings

import numpy as np

from dst import seams, seeds, world

ID = "C04"
LEVEL = "fault_enumeration"
EPS = np.finfo(float).eps

ITER_KINDS = ("S-maxiter", "S-breakdown", "S-adversarial", "S-persistent", "F-solver-raise")
DIRECT_KINDS = ("S-singular", "F-solver-raise")
LAPACK_KINDS = ("S-lapack-info", "F-solver-raise")


# =========================================================================== generate
def generate(rng, repo_root, config, tier="quick", opts=None):
    opts = opts or {}
    cls = rng.choice(["IdealReservoir", "SinglePhaseReservoir", "SinglePhaseReservoir", "TwoPhaseReservoir"])
    fs = world.draw_fluid_spec(rng, repo_root)
    # node count: log-uniform 3..400 with a weighted tail
    u = rng.random()
    if u < 0.1:
        nx = rng.choice([200, 300, 400])
    elif u < 0.2:
        nx = rng.choice([3, 4])
    else:
        nx = int(round(3 * (400 / 3) ** rng.random()))
    max_steps = max(2, min(300, int(opts.get("cell_budget", 24000) / nx)))
    nsteps = max(1, int(round(max_steps ** rng.random())))
    g = world.draw_grid(rng, n=nsteps + 1, families=("uniform", "quadratic", "geometric", "random", "random", "bigstep", "tiny", "nearly_uniform", "ramp", "integer"))
    if g.get("dtype"):
        pass
    elif rng.random() < 0.1 and len(g["t"]) > 3:
        # a repeated time (zero increment) is a legal non-decreasing grid
        j = rng.randrange(1, len(g["t"]) - 1)
        g["t"][j] = g["t"][j - 1]
    if not g.get("dtype") and rng.random() < 0.15:
        # stretch to very large / very small mesh ratios
        f = 10.0 ** rng.choice([-6, -3, 3, 6])
        t0 = g["t"][0]
        g["t"] = [t0 + (v - t0) * f for v in g["t"]]
    obj = {"cls": cls, "nx": nx, "pf": world.draw_pf(rng, fs), "pi": fs["p_i"], "fluid": 0}
    if cls == "IdealReservoir" and rng.random() < 0.5:
        obj["fluid"] = None
    sched = None
    if cls == "SinglePhaseReservoir" and rng.random() < 0.4:
        sched = world.draw_schedule(rng, fs, obj["pf"], len(g["t"]))
    scn = {"property": ID, "config": config, "fluids": [fs], "object": obj, "grid": g, "sched": sched}
    if config == "B":
        scn["positions"] = ["first", "last", ["interior", round(rng.random(), 6)]]
        scn["pattern"] = rng.randrange(4)
        scn["exc"] = rng.choice(["RuntimeError", "MemoryError"])
        scn["iters"] = rng.choice([1, 1, 2, 3])
        scn["sweep_all_positions"] = bool(tier == "thorough" and rng.random() < 0.25)
    return scn


def generate_from_rng(rng, repo_root, tier="thorough", opts=None):
    opts = dict(opts or {})
    opts.setdefault("cell_budget", 6000)  # hypothesis sessions are single-threaded: keep examples small
    return generate(rng, repo_root, "B" if rng.random() < 0.5 else "A", "quick", opts)


def scenario_for(k, batch_seed, tier, repo_root, opts=None):
    rng = seeds.rng_for(ID, batch_seed, k)
    scn = generate(rng, repo_root, "B" if k % 2 else "A", tier, opts)
    if (opts or {}).get("canary"):
        scn["canary"] = True
    return scn


CANARY = "one solver answer silently multiplied by (1 + 1e-6) at the first call of a run must fail the step model (A2)"


# =========================================================================== step model
def step_scores(res, time, pp, bnorms=None):
    """Return (best_max_score, per-step scores for the best choice, chosen c, info dict).

    R_j = v_j - c*dt*a_j*(v_{j+1} - 2 v_j + v_{j-1}) - u'_j   (1 <= j <= nx-2)
    R_{nx-1} = v_{nx-1} - c*dt*a_{nx-1}*(v_{nx-2} - v_{nx-1}) - u'_{nx-1}

    Tolerance per step ("rounding level relative to the step's right-hand side"):
        1e-9 * ||b||_2  +  64*eps*(1 + 4*c*dt*max a)*||v||_inf  +  1e-11*||pp[0]||_inf
    where b is the step's right-hand side *including its frac-face entry* (taken from the
    solver seam's record when there is exactly one recorded solve per step, otherwise
    reconstructed from the stored levels through row 0 of the update).
    """
    time = np.asarray(time, dtype=float)
    pp = np.asarray(pp, dtype=float)
    nsteps, nx = pp.shape[0] - 1, pp.shape[1]
    if nsteps < 1 or nx < 3 or time.shape[0] != pp.shape[0]:
        return np.inf, np.array([np.inf]), None, {"reason": "shape"}
    if not np.all(np.isfinite(pp)):
        bad = ~np.all(np.isfinite(pp[1:]), axis=1)
        sc = np.where(bad, np.inf, 0.0)
        return np.inf, sc, None, {"reason": "non-finite level"}
    u, v = pp[:-1], pp[1:]
    dt = np.diff(time)[:, None]
    m_i = None
    fluid = getattr(res, "fluid", None)
    if fluid is not None and type(res).__name__ != "IdealReservoir":
        try:
            m_i = float(np.asarray(fluid.m_i))
        except Exception:  # noqa: BLE001  (attribute renamed / hidden by a refactor: the initial level carries it)
            m_i = float(pp[0, -1])
    variants = [u]
    if m_i is not None:
        variants.insert(0, np.minimum(u, m_i))
    lap = np.empty((nsteps, nx - 1))
    lap[:, :-1] = v[:, 2:] - 2 * v[:, 1:-1] + v[:, :-2]
    lap[:, -1] = v[:, -2] - v[:, -1]
    scale0 = float(np.max(np.abs(pp[0])))
    vmax = np.max(np.abs(v), axis=1)
    best = (np.inf, None, None, None)
    for up in variants:
        with np.errstate(all="ignore"):
            a = np.asarray(res.alpha_scaled(up), dtype=float)
        if a.shape != up.shape or not np.all(np.isfinite(a)):
            continue
        a1 = a[:, 1:]
        amax = np.max(np.abs(a1), axis=1)
        d = v[:, 1:] - up[:, 1:]
        g = dt * a1 * lap
        cands = [float((nx - 1) ** 2), float(nx ** 2)]
        den = float(np.sum(g * g))
        if den > 0:
            c_ls = float(np.sum(d * g) / den)
            if (nx - 1) ** 2 <= c_ls <= (nx + 1) ** 2:
                cands.append(c_ls)
        for c in cands:
            R = np.max(np.abs(d - c * g), axis=1)
            if bnorms is not None:
                bn = np.asarray(bnorms, dtype=float)
            elif m_i is None:
                bn = np.linalg.norm(up, axis=1)
            else:
                # frac-face entry of the right-hand side from row 0: b0 = (1+2k0) v0 - k0 v1, k0 = c dt a(b0)
                b0 = v[:, 0].copy()
                with np.errstate(all="ignore"):
                    for _ in range(2):
                        a0 = np.asarray(res.alpha_scaled(b0), dtype=float)
                        k0 = c * dt[:, 0] * a0
                        b0 = (1 + 2 * k0) * v[:, 0] - k0 * v[:, 1]
                b0 = np.where(np.isfinite(b0), b0, 0.0)
                bn = np.sqrt(np.sum(up[:, 1:] ** 2, axis=1) + b0 ** 2)
            thr = 1e-9 * bn + 64 * EPS * (1 + 4 * c * dt[:, 0] * amax) * vmax + 1e-11 * scale0
            sc = R / thr
            m = float(np.max(sc))
            if m < best[0]:
                best = (m, sc, c, {"residual_inf": float(np.max(R)), "worst_step": int(np.argmax(sc))})
    if best[1] is None:
        return np.inf, np.array([np.inf]), None, {"reason": "alpha_scaled not finite"}
    return best


# =========================================================================== execute
class OneRun:
    pass


def _build(ns, scn):
    lib = ns.fresh()
    fl, _ = world.make_fluid(lib, scn["fluids"][0], ns.repo_root)
    o = scn["object"]
    cls = getattr(lib, o["cls"])
    return cls(int(o["nx"]), float(o["pf"]), float(o["pi"]), fl if o.get("fluid") is not None else None)


SOLVER_WARNING_NAMES = ("MatrixRankWarning", "LinAlgWarning", "ConvergenceWarning")


def run_once(ns, scn, plan=None):
    r = OneRun()
    res = _build(ns, scn)
    t = world.grid_array(scn["grid"])
    sched = None if scn.get("sched") is None else np.array(scn["sched"]["v"], dtype=float)
    r.raised = None
    r.warned = []
    seams.SOLVER.begin(plan=plan, keep_matrices=False)
    try:
        with warnings.catch_warnings(record=True) as wlist:
            warnings.simplefilter("always")
            try:
                if sched is None:
                    res.simulate(t)
                else:
                    res.simulate(t, sched)
            except seams.InjectedCrash:
                r.raised = "InjectedCrash"
            except (Exception, MemoryError) as e:  # noqa: BLE001
                r.raised = type(e).__name__
    finally:
        r.records, r.fired = seams.SOLVER.end()
    prefix = seams.SOLVER.repo_prefix
    for w in wlist:
        cat = w.category.__name__
        fn = w.filename or ""
        if cat in SOLVER_WARNING_NAMES or fn.startswith(prefix):
            r.warned.append(cat)
    r.res = res
    r.time = getattr(res, "time", None)
    r.pp = getattr(res, "pseudopressure", None)
    r.completed = r.raised is None and r.pp is not None and r.time is not None
    if r.completed:
        bn = None
        try:
            if len(r.records) == len(r.time) - 1 and all(x.get("b") is not None and x.get("fault") is None for x in r.records):
                bn = [float(np.linalg.norm(x["b"])) for x in r.records]
        except Exception:  # noqa: BLE001
            bn = None
        r.score, r.scores, r.c, r.info = step_scores(res, r.time, r.pp, bn)
    else:
        r.score, r.scores, r.c, r.info = None, None, None, {}
    return r


class Result:
    def __init__(self):
        self.violations = []
        self.log = []
        self.stats = {"steps": 0, "solver_calls": 0, "faults_fired": {}, "probes": {}, "max_score": {},
                      "natural_info_nonzero": 0, "iterative_calls": 0, "direct_calls": 0, "fault_runs": 0,
                      "sim_time": 0.0, "outcomes": {}}

    def probe(self, name, n=1):
        self.stats["probes"][name] = self.stats["probes"].get(name, 0) + n

    def digest(self):
        return hashlib.sha256(repr(self.log).encode()).hexdigest()


def _site(rec):
    return f"{rec['site'][0]}:{rec['site'][1]}" if rec.get("site") else "?"


def _d(x):
    h = hashlib.blake2b(digest_size=8)
    h.update(np.ascontiguousarray(np.asarray(x, dtype=float)).tobytes())
    return h.hexdigest()


def execute(ns, scn):
    out = Result()
    st = out.stats
    cls = scn["object"]["cls"]
    if scn.get("canary"):
        # sensitivity canary: one solver answer silently off by a relative 1e-6 must fail the step model
        fr = run_once(ns, scn, {0: {"kind": "C-perturb"}})
        out.log.append(("canary", bool(fr.fired), fr.raised, None if fr.score is None else float(fr.score)))
        if fr.fired and fr.completed and not (fr.score <= 1.0):
            out.violations.append({"clause": "canary", "fingerprint": "canary", "detail": {}})
        elif not fr.fired:
            out.probe("canary_not_applicable")
        return out
    base = run_once(ns, scn, None)
    nrec = len(base.records)
    st["solver_calls"] += nrec
    solver = base.records[0]["solver"] if nrec else "none"
    skind = base.records[0]["kind"] if nrec else "none"
    site = _site(base.records[0]) if nrec else f"reservoir.py:{cls}.simulate"
    st["iterative_calls"] += sum(1 for r in base.records if r["kind"] == "iterative")
    st["direct_calls"] += sum(1 for r in base.records if r["kind"] == "direct")
    nat = [r for r in base.records if r["kind"] in ("iterative", "lapack") and r["info"] not in (0, None)]
    st["natural_info_nonzero"] += len(nat)
    out.log.append(("base", cls, scn["object"]["nx"], len(scn["grid"]["t"]), base.raised, nrec, solver,
                    None if base.pp is None else _d(base.pp)))
    if not base.completed:
        # the world itself was rejected (never expected: worlds are drawn valid)
        out.probe("world_rejected_" + str(base.raised))
        return out
    nsteps = len(base.time) - 1
    st["steps"] += nsteps
    st["sim_time"] += float(base.time[-1] - base.time[0])
    key = f"{solver}/{cls}"
    st["max_score"][key] = max(st["max_score"].get(key, 0.0), float(base.score))
    if nrec == 0:
        out.probe("no_solver_call_seen")
    # A1 (advisory): stored level == what the solver returned for that step
    if nrec == nsteps:
        mism = sum(1 for i, r in enumerate(base.records)
                   if r["x"] is not None and not np.array_equal(np.asarray(base.pp)[i + 1], np.ravel(r["x"]), equal_nan=True))
        if mism:
            out.probe("stored_level_differs_from_solver_output", mism)
    elif nrec:
        out.probe("solver_calls_ne_steps")
    # A2 / A3
    if not (base.score <= 1.0):
        clause = "A3-unconverged-accepted" if nat and not base.warned else "A2-step-model"
        if not (nat and base.warned):
            out.violations.append({
                "clause": clause, "fingerprint": f"{clause}/{solver}/{cls}",
                "detail": {"max_score": float(base.score), "chosen_c": base.c, **base.info, "nx": scn["object"]["nx"],
                           "steps": nsteps, "natural_info_nonzero": len(nat), "solver": solver, "site": site,
                           "failing_steps": int(np.sum(~(base.scores <= 1.0)))}})
            return out
    # reads must leave the stored levels intact: after both recovery modes and the interpolator were computed,
    # every step still satisfies the update
    with warnings.catch_warnings():
        warnings.simplefilter("ignore")
        for fn in (lambda: base.res.recovery_factor(), lambda: base.res.recovery_factor(density=True),
                   lambda: base.res.recovery_factor_interpolator()):
            try:
                fn()
            except Exception:  # noqa: BLE001  (e.g. no density column: not this property's business)
                pass
    t2, pp2 = getattr(base.res, "time", None), getattr(base.res, "pseudopressure", None)
    if t2 is None or pp2 is None:
        score2, info2 = np.inf, {"reason": "results gone after a read"}
    else:
        score2, _sc, _c, info2 = step_scores(base.res, t2, pp2, None)
    out.log.append(("after-reads", None if pp2 is None else _d(pp2)))
    if not (score2 <= 1.0):
        out.violations.append({
            "clause": "A2-after-read", "fingerprint": f"A2-after-read/{solver}/{cls}",
            "detail": {"max_score": float(score2), **(info2 or {}), "nx": scn["object"]["nx"], "steps": nsteps,
                       "note": "the stored levels satisfied the step model right after simulate and no longer do after recovery reads"}})
        return out
    if scn["config"] != "B":
        return out
    if nrec == 0:
        return out
    # ------------------------------------------------------------------ fault enumeration
    kinds = ITER_KINDS if skind == "iterative" else LAPACK_KINDS if skind == "lapack" else DIRECT_KINDS
    if scn.get("sweep_all_positions") and nrec * max(1, scn["object"]["nx"]) <= 6000:
        positions = list(range(nrec))        # every call position (bounded so one scenario stays well under the wall limit)
    elif scn.get("sweep_all_positions"):
        positions = sorted(set([0, nrec - 1] + [int(round(j * (nrec - 1) / 23)) for j in range(24)]))
    else:
        positions = []
        for p in scn["positions"]:
            if p == "first":
                positions.append(0)
            elif p == "last":
                positions.append(nrec - 1)
            else:
                positions.append(min(nrec - 1, int(p[1] * nrec)))
        positions = sorted(set(positions))
    for pos in positions:
        for kind in kinds:
            spec = {"kind": kind, "pattern": scn.get("pattern", 0), "exc": scn.get("exc", "RuntimeError"),
                    "iters": scn.get("iters", 1), "info": -10 if pos % 2 == 0 else -11}
            fr = run_once(ns, scn, {pos: spec})
            st["fault_runs"] += 1
            st["solver_calls"] += len(fr.records)
            fired = bool(fr.fired)
            if fired:
                st["faults_fired"][kind] = st["faults_fired"].get(kind, 0) + 1
            if fr.raised:
                outcome = "raised"
            elif fr.warned:
                outcome = "warned"
            elif fr.completed and fr.score <= 1.0:
                outcome = "recovered" if fired else "not-fired"
            else:
                outcome = "SILENT"
            st["outcomes"][f"{kind}:{outcome}"] = st["outcomes"].get(f"{kind}:{outcome}", 0) + 1
            out.log.append(("fault", pos, kind, outcome, fr.raised, None if fr.pp is None or fr.raised else _d(fr.pp)))
            if outcome == "SILENT":
                out.violations.append({
                    "clause": "B-silent", "fingerprint": f"B-silent/{kind}/{solver}/{cls}",
                    "detail": {"fault": spec, "position": pos, "of_calls": nrec, "max_score": float(fr.score) if fr.score is not None else None,
                               "solver": solver, "site": site, **(fr.info or {})}})
                scn_min = scn  # positions are kept; minimiser narrows them
                return out
    return out


# =========================================================================== module interface
def new_aggregate():
    return {"runs": 0, "config": {}, "steps": 0, "solver_calls": 0, "faults_fired": {}, "probes": {}, "max_score": {},
            "natural_info_nonzero": 0, "iterative_calls": 0, "direct_calls": 0, "fault_runs": 0, "sim_time": 0.0,
            "outcomes": {}, "worlds": set(), "worlds_nontrivial": set(), "samples": [], "classes": {}, "nx_hist": {},
            "violating_runs": 0, "families": {}, "grid_families": {}}


def _world_key(scn):
    return hashlib.blake2b(json.dumps([scn["fluids"], scn["object"], scn["grid"]["t"], scn.get("sched")],
                                      sort_keys=True).encode(), digest_size=10).hexdigest()


def aggregate(agg, scn, res):
    st = res.stats
    agg["runs"] += 1
    agg["config"][scn["config"]] = agg["config"].get(scn["config"], 0) + 1
    for key in ("steps", "solver_calls", "natural_info_nonzero", "iterative_calls", "direct_calls", "fault_runs"):
        agg[key] += st[key]
    agg["sim_time"] += st["sim_time"]
    for key in ("faults_fired", "probes", "outcomes"):
        for kx, v in st[key].items():
            agg[key][kx] = agg[key].get(kx, 0) + v
    for kx, v in st["max_score"].items():
        agg["max_score"][kx] = max(agg["max_score"].get(kx, 0.0), v)
    wk = _world_key(scn)
    agg["worlds"].add(wk)
    if st["steps"] >= 2:
        agg["worlds_nontrivial"].add(wk)
    o = scn["object"]
    agg["classes"][o["cls"]] = agg["classes"].get(o["cls"], 0) + 1
    b = "3-9" if o["nx"] < 10 else "10-49" if o["nx"] < 50 else "50-199" if o["nx"] < 200 else "200-400"
    agg["nx_hist"][b] = agg["nx_hist"].get(b, 0) + 1
    fam = scn["fluids"][0]["family"]
    agg["families"][fam] = agg["families"].get(fam, 0) + 1
    gf = scn["grid"]["family"]
    agg["grid_families"][gf] = agg["grid_families"].get(gf, 0) + 1
    if res.violations:
        agg["violating_runs"] += 1
    if len(agg["samples"]) < 3:
        agg["samples"].append(sample_repr(scn, res))


def merge(a, b):
    a["timeouts"] = a.get("timeouts", 0) + b.get("timeouts", 0)
    a["setup_errors"] = a.get("setup_errors", 0) + b.get("setup_errors", 0)
    for key in ("runs", "steps", "solver_calls", "natural_info_nonzero", "iterative_calls", "direct_calls", "fault_runs", "violating_runs"):
        a[key] += b[key]
    a["sim_time"] += b["sim_time"]
    for key in ("config", "faults_fired", "probes", "outcomes", "classes", "nx_hist", "families", "grid_families"):
        for kx, v in b[key].items():
            a[key][kx] = a[key].get(kx, 0) + v
    for kx, v in b["max_score"].items():
        a["max_score"][kx] = max(a["max_score"].get(kx, 0.0), v)
    a["worlds"] |= b["worlds"]
    a["worlds_nontrivial"] |= b["worlds_nontrivial"]
    for s in b["samples"]:
        if len(a["samples"]) < 4:
            a["samples"].append(s)


def sample_repr(scn, res=None):
    o = scn["object"]
    t = scn["grid"]["t"]
    d = {"config": scn["config"], "object": f'{o["cls"]}(nx={o["nx"]}, pf={o["pf"]}, pi={o["pi"]})',
         "fluid": f'{scn["fluids"][0]["family"]}@p_i={scn["fluids"][0]["p_i"]}',
         "grid": f'{scn["grid"]["family"]} n={len(t)} t0={t[0]:.4g} t_end={t[-1]:.4g}',
         "schedule": None if scn.get("sched") is None else scn["sched"]["kind"]}
    if res is not None:
        d["events"] = [list(map(str, e)) for e in res.log[:8]]
    return d


def fingerprint_class(fp):
    return fp


def shrink_candidates(scn):
    import copy

    t = scn["grid"]["t"]
    n = len(t)
    for m in (2, 3, n // 2, n - 1):
        if 2 <= m < n:
            c = copy.deepcopy(scn)
            c["grid"]["t"] = t[:m]
            if c.get("sched") is not None:
                c["sched"]["v"] = c["sched"]["v"][:m]
            yield c
    if n > 3:
        c = copy.deepcopy(scn)
        c["grid"]["t"] = t[-3:]
        if c.get("sched") is not None:
            c["sched"]["v"] = c["sched"]["v"][-3:]
        yield c
    nx = scn["object"]["nx"]
    for m in (3, 5, nx // 2, nx - 1):
        if 3 <= m < nx:
            c = copy.deepcopy(scn)
            c["object"]["nx"] = m
            yield c
    if scn.get("sched") is not None:
        c = copy.deepcopy(scn)
        c["sched"] = None
        yield c
    if scn["config"] == "B":
        if scn.get("sweep_all_positions"):
            c = copy.deepcopy(scn)
            c["sweep_all_positions"] = False
            yield c
        if len(scn.get("positions", [])) > 1:
            for i in range(len(scn["positions"])):
                c = copy.deepcopy(scn)
                c["positions"] = [scn["positions"][i]]
                c["sweep_all_positions"] = False
                yield c
    f = scn["fluids"][0]
    if f["family"] != "gas" or f.get("n", 0) > 4:
        c = copy.deepcopy(scn)
        hi = float(max(f["_p_hi"], f["p_i"]))
        c["fluids"][0] = {"family": "gas", "n": 4, "p_lo": 100.0, "p_hi": hi, "a": 0.1, "b": 0.05, "c": 0.5,
                          "mu0": 0.02, "as": "dict", "p_i": f["p_i"], "_p_lo": 100.0, "_p_hi": hi}
        if scn["object"]["pf"] >= 100.0 and (scn.get("sched") is None or min(scn["sched"]["v"]) >= 100.0):
            yield c


def evidence(out, tier, seed, wall, wall_batch, cross, known_hits, violations, workers, ns):
    from dst import engine

    agg = out["agg"]
    runs = out["done"]
    warn = []
    if agg["iterative_calls"] == 0:
        warn.append("no iterative solver call observed: the 'did not converge' clause is vacuous on this tree "
                    "(direct solver); S-maxiter/S-breakdown/S-adversarial/S-persistent were not applicable")
    return {
        "property_id": ID, "tier": tier, "seed": seed, "level": LEVEL, "wall_s": round(wall, 2),
        "violations": violations,
        "coverage": {
            "evaluations": runs + agg["fault_runs"],
            "distinct_nontrivial": len(agg["worlds_nontrivial"]),
            "rule": "one evaluation = one real simulate() executed under the solver seam (pass-through, or with exactly one "
                    "injected solver fault at one call position); worlds are drawn from the seeded PRNG (class, table family, "
                    "p_f/p_i, nx 3..400, non-uniform grid, optional schedule). distinct = distinct world digests; non-trivial = "
                    "at least two time steps monitored against the step model.",
            "samples": agg["samples"],
            "worlds": runs,
            "planned_runs": out["planned"],
            "runs_by_configuration": agg["config"],
            "time_steps_monitored": agg["steps"],
            "scaled_simulated_time_covered": agg["sim_time"],
            "solver_calls_intercepted": agg["solver_calls"],
            "iterative_calls": agg["iterative_calls"],
            "direct_calls": agg["direct_calls"],
            "natural_info_nonzero": agg["natural_info_nonzero"],
            "fault_runs": agg["fault_runs"],
            "faults_fired": dict(sorted(agg["faults_fired"].items())),
            "fault_outcomes": dict(sorted(agg["outcomes"].items())),
            "max_scaled_residual_by_solver_and_class": {k: float(f"{v:.3g}") for k, v in sorted(agg["max_score"].items())},
            "reservoir_classes": agg["classes"],
            "nx_histogram": agg["nx_hist"],
            "table_families": agg["families"],
            "grid_families": agg["grid_families"],
            "probes": dict(sorted(agg["probes"].items())),
            "runs_per_hour": int((runs + agg["fault_runs"]) / max(1e-9, wall_batch) * 3600),
            "seeds_per_hour": int(runs / max(1e-9, wall_batch) * 3600),
            "workers": workers,
            "determinism_cross_check": cross,
            "batch_digest": engine.batch_digest(out["digests"]),
            "known_finding_runs": known_hits,
            "violating_runs": agg["violating_runs"],
            "scenarios_timed_out_inconclusive": agg.get("timeouts", 0),
            "scenarios_not_set_up_inconclusive": agg.get("setup_errors", 0),
            "warnings": warn,
            "real_vs_stub": {
                "real": "all of bluebonnet; scipy interp1d, sparse.diags; the linear solver in pass-through runs (wrapped, recorded)",
                "stub": "the linear solver's outcome at exactly one call in each fault run (S-* / F-solver-raise)",
                "model": "backward-Euler step model in dst/c04.py:step_scores (independent of _build_matrix)",
            },
            "repo_root": ns.repo_root,
        },
        "assumptions": [
            "reservoir.alpha_scaled and reservoir.time are trusted as the property's observe_at lists them",
            "row 0 (frac-face row) is not checked here; it belongs to C01",
            "a direct solver is never made to return silent garbage: its contract has no failure flag",
        ],
    }
