"""Deterministic simulation with fault injection for frank1010111/bluebonnet.

See /verif/DESIGN.md.  Nothing in this package draws randomness except through the
single ``random.Random`` handed to a generator by ``dst.seeds``.
"""
