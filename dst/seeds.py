"""One integer decides everything."""

from __future__ import annotations

import hashlib
import random

DEFAULT_SEED = 20260101


def run_seed(prop: str, batch_seed: int, k: int, stream: str = "") -> int:
    h = hashlib.blake2b(f"{prop}:{batch_seed}:{k}:{stream}".encode(), digest_size=8)
    return int.from_bytes(h.digest(), "big")


def rng_for(prop: str, batch_seed: int, k: int, stream: str = "") -> random.Random:
    return random.Random(run_seed(prop, batch_seed, k, stream))
