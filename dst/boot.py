"""Process start-up: pin the environment, install the seams, import the repo tree.

Order matters: the solver seam is installed in ``scipy`` *before* ``bluebonnet`` is
imported so that ``from scipy.sparse.linalg import bicgstab`` style imports in a changed
tree also bind to the recording wrappers.
"""

from __future__ import annotations

import os
import sys

PINNED_ENV = {
    "PYTHONHASHSEED": "0",
    "OMP_NUM_THREADS": "1",
    "OPENBLAS_NUM_THREADS": "1",
    "MKL_NUM_THREADS": "1",
    "NUMEXPR_NUM_THREADS": "1",
    "MPLBACKEND": "Agg",
    "PYTHONDONTWRITEBYTECODE": "1",
}


def ensure_env(argv=None):
    """Re-exec once with the pinned environment (hash seed, single-threaded BLAS)."""
    if os.environ.get("BBV_ENV_PINNED") == "1":
        return
    env = dict(os.environ)
    # A caller may deliberately override the hash seed (determinism self-test).
    for k, v in PINNED_ENV.items():
        if k == "PYTHONHASHSEED" and "BBV_HASHSEED" in env:
            env[k] = env["BBV_HASHSEED"]
        else:
            env[k] = v
    env["BBV_ENV_PINNED"] = "1"
    argv = list(sys.argv if argv is None else argv)
    os.execve(sys.executable, [sys.executable, *argv], env)


_LOADED = {}


def load_repo(repo_root: str = "/repo"):
    """Install seams, import bluebonnet from ``repo_root`` and return a namespace."""
    repo_root = os.path.realpath(repo_root)
    if _LOADED:
        if _LOADED["repo_root"] != repo_root:
            raise RuntimeError("bluebonnet already loaded from another tree")
        return _LOADED["ns"]
    src = os.path.join(repo_root, "src")
    if not os.path.isdir(os.path.join(src, "bluebonnet")):
        raise HarnessError(f"no bluebonnet package under {src}")
    sys.path.insert(0, src)
    import warnings

    from dst import seams

    seams.SOLVER.install(repo_root)
    with warnings.catch_warnings():
        warnings.simplefilter("ignore")
        import bluebonnet  # noqa: F401
        import bluebonnet.flow.flowproperties as flowproperties
        import bluebonnet.flow.reservoir as reservoir
    got = os.path.realpath(reservoir.__file__)
    if not got.startswith(src + os.sep):
        raise HarnessError(f"imported bluebonnet from {got}, expected under {src}")
    seams.SOLVER.rebind_namespace(reservoir)
    seams.CRASH.configure(os.path.realpath(reservoir.__file__))

    ns = Lib(repo_root, reservoir, flowproperties)
    ns._code = {}
    for m in (flowproperties, reservoir):
        with open(m.__file__) as f:
            ns._code[m.__name__] = (compile(f.read(), m.__file__, "exec"), m.__file__, m.__package__)
    _LOADED["repo_root"] = repo_root
    _LOADED["ns"] = ns
    return ns


class Lib:
    """The library classes of one *instance* of the repo's modules.

    ``fresh()`` re-executes ``flowproperties.py`` and ``reservoir.py`` into new module
    objects, so module-level and class-level state (memo dicts, mutable defaults, class
    attributes) starts cold.  Scenarios run their objects in one fresh instance and build
    every reference in another: state that leaks across objects or calls through the module
    is then visible to the fresh-object oracle, and a scenario never depends on what the
    worker process executed before it.
    """

    def __init__(self, repo_root, reservoir, flowproperties, parent=None):
        self.repo_root = repo_root
        self.reservoir = reservoir
        self.flowproperties = flowproperties
        self._parent = parent
        for name in ("IdealReservoir", "SinglePhaseReservoir", "TwoPhaseReservoir", "MultiPhaseReservoir"):
            setattr(self, name, getattr(reservoir, name))
        for name in ("FlowProperties", "FlowPropertiesSimple", "FlowPropertiesTwoPhase"):
            setattr(self, name, getattr(flowproperties, name))

    def fresh(self):
        import types
        import warnings

        root = self._parent or self
        mods = {}
        fname = "bluebonnet.flow.flowproperties"
        rname = "bluebonnet.flow.reservoir"
        saved = sys.modules.get(fname)
        try:
            with warnings.catch_warnings():
                warnings.simplefilter("ignore")
                for name in (fname, rname):
                    code, file, pkg = root._code[name]
                    m = types.ModuleType(name)
                    m.__file__ = file
                    m.__package__ = pkg
                    exec(code, m.__dict__)  # noqa: S102  (the repo's own source, deliberately re-instantiated)
                    mods[name] = m
                    if name == fname:
                        sys.modules[fname] = m  # reservoir.py imports FlowProperties from it
        finally:
            sys.modules[fname] = saved
        return Lib(self.repo_root, mods[rname], mods[fname], parent=root)


class HarnessError(Exception):
    """The machinery itself is broken (exit 2); never a pass, never a VIOLATION."""
