"""Process start-up: pin the environment, install the seams, import the repo tree.

Order matters: the solver seam is installed in ``scipy`` *before* ``bluebonnet`` is
imported so that ``from scipy.sparse.linalg import bicgstab`` style imports in a changed
tree also bind to the recording wrappers.
"""

from __future__ import annotations

import os
import sys

PINNED_ENV = {
    "PYTHONHASHSEED": "0",
    "OMP_NUM_THREADS": "1",
    "OPENBLAS_NUM_THREADS": "1",
    "MKL_NUM_THREADS": "1",
    "NUMEXPR_NUM_THREADS": "1",
    "MPLBACKEND": "Agg",
    "PYTHONDONTWRITEBYTECODE": "1",
}


def ensure_env(argv=None):
    """Re-exec once with the pinned environment (hash seed, single-threaded BLAS)."""
    if os.environ.get("BBV_ENV_PINNED") == "1":
        return
    env = dict(os.environ)
    # A caller may deliberately override the hash seed (determinism self-test).
    for k, v in PINNED_ENV.items():
        if k == "PYTHONHASHSEED" and "BBV_HASHSEED" in env:
            env[k] = env["BBV_HASHSEED"]
        else:
            env[k] = v
    env["BBV_ENV_PINNED"] = "1"
    argv = list(sys.argv if argv is None else argv)
    os.execve(sys.executable, [sys.executable, *argv], env)


_LOADED = {}


def load_repo(repo_root: str = "/repo"):
    """Install seams, import bluebonnet from ``repo_root`` and return a namespace."""
    repo_root = os.path.realpath(repo_root)
    if _LOADED:
        if _LOADED["repo_root"] != repo_root:
            raise RuntimeError("bluebonnet already loaded from another tree")
        return _LOADED["ns"]
    src = os.path.join(repo_root, "src")
    if not os.path.isdir(os.path.join(src, "bluebonnet")):
        raise HarnessError(f"no bluebonnet package under {src}")
    sys.path.insert(0, src)
    import warnings

    from dst import seams

    seams.SOLVER.install(repo_root)
    with warnings.catch_warnings():
        warnings.simplefilter("ignore")
        import bluebonnet  # noqa: F401
        import bluebonnet.flow.flowproperties as flowproperties
        import bluebonnet.flow.reservoir as reservoir
    got = os.path.realpath(reservoir.__file__)
    if not got.startswith(src + os.sep):
        raise HarnessError(f"imported bluebonnet from {got}, expected under {src}")
    seams.SOLVER.rebind_namespace(reservoir)
    seams.CRASH.configure(os.path.realpath(reservoir.__file__))

    class NS:
        pass

    ns = NS()
    ns.repo_root = repo_root
    ns.reservoir = reservoir
    ns.flowproperties = flowproperties
    ns.IdealReservoir = reservoir.IdealReservoir
    ns.SinglePhaseReservoir = reservoir.SinglePhaseReservoir
    ns.TwoPhaseReservoir = reservoir.TwoPhaseReservoir
    ns.MultiPhaseReservoir = reservoir.MultiPhaseReservoir
    ns.FlowProperties = flowproperties.FlowProperties
    ns.FlowPropertiesSimple = flowproperties.FlowPropertiesSimple
    ns.FlowPropertiesTwoPhase = flowproperties.FlowPropertiesTwoPhase
    _LOADED["repo_root"] = repo_root
    _LOADED["ns"] = ns
    return ns


class HarnessError(Exception):
    """The machinery itself is broken (exit 2); never a pass, never a VIOLATION."""
