"""World generation: fluid tables, reservoir objects, time grids (swarm style).

A *spec* is a JSON-able dict drawn from the run's PRNG; ``make_*`` turns a spec into
real objects.  Specs, not seeds, are what replay files and the shrinker work on.
"""

from __future__ import annotations

import os
import warnings

import numpy as np

_CSV_CACHE = {}

GAS_RENAME = {"P": "pressure", "Z-Factor": "z-factor", "Cg": "compressibility",
              "Viscosity": "viscosity", "Density": "density"}
OIL_RENAME = {"P": "pressure", "Z-Factor": "z-factor", "Co": "compressibility",
              "Oil_Viscosity": "viscosity", "Oil_Density": "density"}
CSV_FILES = {
    "csv_gas": ("pvt_gas.csv", GAS_RENAME),
    "csv_haynesville": ("pvt_gas_HAYNESVILLE SHALE_20.csv", {"Density": "density"}),
    "csv_oil": ("pvt_oil.csv", OIL_RENAME),
}


def _load_csv(repo_root, key):
    ck = (repo_root, key)
    if ck not in _CSV_CACHE:
        import pandas as pd

        fname, ren = CSV_FILES[key]
        path = os.path.join(repo_root, "tests", "data", fname)
        try:
            df = pd.read_csv(path).rename(columns=ren)
            df = df[[c for c in df.columns if c in
                     ("pressure", "z-factor", "compressibility", "viscosity", "density", "pseudopressure")]]
            df = df[df["pressure"] > 0].reset_index(drop=True)
            _CSV_CACHE[ck] = df
        except Exception:  # noqa: BLE001  (file removed by a change under test)
            _CSV_CACHE[ck] = None
    return _CSV_CACHE[ck]


def csv_available(repo_root, key):
    return _load_csv(repo_root, key) is not None


# --------------------------------------------------------------------------- tables
def make_table(spec, repo_root):
    """Return a fresh caller-side table (dict of arrays or DataFrame) for ``spec``."""
    fam = spec["family"]
    if fam.startswith("csv_"):
        df = _load_csv(repo_root, fam)
        if df is None:
            raise FileNotFoundError(fam)
        stride = int(spec.get("stride", 1))
        out = df.iloc[::stride].reset_index(drop=True).copy()
        if spec.get("reverse"):
            out = out.iloc[::-1].reset_index(drop=True)   # rows in descending pressure order
        if spec.get("as") == "dict":
            return {c: out[c].to_numpy().copy() for c in out.columns}
        return out
    n = int(spec["n"])
    p_lo, p_hi = float(spec["p_lo"]), float(spec["p_hi"])
    if spec.get("pgrid") == "quad":
        p = p_lo + (p_hi - p_lo) * np.linspace(0, 1, n) ** 2
    else:
        p = np.linspace(p_lo, p_hi, n)
    x = p / p_hi
    a, b, c = float(spec.get("a", 0.0)), float(spec.get("b", 0.0)), float(spec.get("c", 0.0))
    mu0 = float(spec.get("mu0", 0.02))
    if fam == "gas":
        z = 1.0 - a * x + b * x * x
        dz = (-a + 2 * b * x) / p_hi
        mu = mu0 * (1.0 + c * x)
        comp = 1.0 / p - dz / z
        dens = 0.05 * p / z
        pp = _cumtrapz(2 * p / (mu * z), p)
        cols = {"pressure": p, "z-factor": z, "viscosity": mu, "compressibility": comp,
                "density": dens, "pseudopressure": pp + float(spec.get("pp0", 0.0))}
    elif fam == "const":
        z = np.ones(n)
        mu = np.full(n, mu0)
        comp = np.full(n, float(spec.get("c0", 1e-4)))
        dens = 40.0 * np.exp(comp * (p - p_lo))
        cols = {"pressure": p, "z-factor": z, "viscosity": mu, "compressibility": comp,
                "density": dens, "pseudopressure": p * p / mu0}
    elif fam in ("alpha_rise", "alpha_fall", "alpha_kink"):
        if fam == "alpha_rise":
            al = 1.0 + a * 10 * x
        elif fam == "alpha_fall":
            al = 1.0 + a * 10 * (1 - x)
        else:
            k = float(spec.get("kink", 0.5))
            al = 1.0 + a * 10 * np.abs(x - k)
        cols = {"pressure": p, "pseudopressure": p ** (1.0 + b) + 1.0, "alpha": al}
        if spec.get("with_density", True):
            cols["density"] = 0.05 * p * (1 + 0.2 * x)
    elif fam == "liquid":
        comp = float(spec.get("c0", 1e-5)) * (1.0 + a * (1 - x))
        mu = mu0 * 50 * (1.0 + c * x)
        dens = 45.0 * np.exp(float(spec.get("c0", 1e-5)) * (p - p_lo))
        cols = {"pressure": p, "viscosity": mu, "compressibility": comp, "density": dens}
    else:
        raise ValueError(fam)
    cols = {k: np.array(v, dtype=float) for k, v in cols.items()}
    if fam == "gas" and spec.get("pp_base_frac"):
        # pseudopressure referenced to a base pressure inside the table: negative below it
        pb = p_lo + float(spec["pp_base_frac"]) * (p_hi - p_lo)
        cols["pseudopressure"] = cols["pseudopressure"] - float(np.interp(pb, cols["pressure"], cols["pseudopressure"]))
    if spec.get("reverse"):
        cols = {k: v[::-1].copy() for k, v in cols.items()}   # rows in descending pressure order
    if spec.get("as") == "frame":
        import pandas as pd

        return pd.DataFrame(cols)
    return cols


def _cumtrapz(y, x):
    out = np.zeros_like(y)
    out[1:] = np.cumsum(0.5 * (y[1:] + y[:-1]) * np.diff(x))
    return out


def table_digest(table):
    import hashlib

    h = hashlib.blake2b(digest_size=12)
    keys = sorted(table.keys()) if hasattr(table, "keys") else []
    for k in keys:
        h.update(str(k).encode())
        h.update(np.ascontiguousarray(np.asarray(table[k], dtype=float)).tobytes())
    return h.hexdigest()


def make_fluid(ns, spec, repo_root):
    """Return (fluid, caller_table)."""
    table = make_table(spec, repo_root)
    cls = ns.FlowPropertiesSimple if spec["family"] == "liquid" else ns.FlowProperties
    with warnings.catch_warnings():
        warnings.simplefilter("ignore")
        fluid = cls(table, float(spec["p_i"]))
    return fluid, table


def make_reservoir(ns, ospec, fluids):
    cls = getattr(ns, ospec["cls"])
    fluid = None if ospec.get("fluid") is None else fluids[ospec["fluid"]]
    pf = ospec["pf"]
    if isinstance(pf, list):
        pf = np.array(pf, dtype=float)
    return cls(int(ospec["nx"]), pf, float(ospec["pi"]), fluid)


# --------------------------------------------------------------------------- drawing
SYNTH_FAMILIES = ("gas", "const", "alpha_rise", "alpha_fall", "alpha_kink", "liquid")


def draw_fluid_spec(rng, repo_root, families=None, allow_csv=True):
    fams = list(families or SYNTH_FAMILIES)
    if allow_csv:
        for k in sorted(CSV_FILES):
            if csv_available(repo_root, k):
                fams.append(k)
    fam = rng.choice(fams)
    spec = {"family": fam}
    if fam.startswith("csv_"):
        spec["stride"] = rng.choice([1, 3, 7, 20])
        spec["as"] = rng.choice(["frame", "frame", "dict"])
        spec["reverse"] = rng.random() < 0.1
        df = _load_csv(repo_root, fam)
        p = df["pressure"].to_numpy()[:: spec["stride"]]
        p_lo, p_hi = float(p[0]), float(p[-1])
        nodes = p
    else:
        spec["n"] = rng.choice([4, 8, 20, 60, 200])
        spec["p_lo"] = rng.choice([14.7, 50.0, 100.0, 500.0])
        spec["p_hi"] = rng.choice([3000.0, 8000.0, 12000.0, 15000.0])
        spec["a"] = round(rng.uniform(0, 0.4), 3)
        spec["b"] = round(rng.uniform(0, 0.3), 3)
        spec["c"] = round(rng.uniform(0, 1.5), 3)
        spec["mu0"] = rng.choice([0.012, 0.02, 0.05])
        spec["c0"] = rng.choice([1e-5, 1e-4, 3e-4])
        spec["kink"] = round(rng.uniform(0.2, 0.8), 2)
        spec["pgrid"] = rng.choice(["lin", "lin", "quad"])
        spec["as"] = rng.choice(["dict", "frame"])
        spec["with_density"] = rng.random() < 0.8
        spec["reverse"] = rng.random() < 0.1
        if fam == "gas" and rng.random() < 0.4:
            spec["pp_base_frac"] = round(rng.uniform(0.02, 0.1), 3)
        p_lo, p_hi = spec["p_lo"], spec["p_hi"]
        tmp = dict(spec)
        tmp["as"] = "dict"
        tmp["reverse"] = False
        nodes = make_table(tmp, repo_root)["pressure"]
    # initial pressure: on a node, or strictly inside the table
    if rng.random() < 0.3:
        lo = max(1, len(nodes) // 3)
        spec["p_i"] = float(nodes[rng.randrange(lo, len(nodes))])
    else:
        spec["p_i"] = min(float(p_hi), round(rng.uniform(p_lo + 0.35 * (p_hi - p_lo), p_hi), 2))
    spec["_p_lo"] = float(nodes[0])
    spec["_p_hi"] = float(nodes[-1])
    return spec


def draw_pf(rng, fspec):
    """A frac-face pressure inside the table and below p_i."""
    p_lo, p_i = fspec["_p_lo"], fspec["p_i"]
    if fspec.get("pp_base_frac") and rng.random() < 0.5:
        # below the pseudopressure base: the scaled frac-face pseudopressure is negative
        return float(p_lo) if rng.random() < 0.5 else round(float(p_lo + rng.random() * fspec["pp_base_frac"] * (fspec["_p_hi"] - p_lo)), 3)
    u = rng.random()
    if u < 0.03:
        return float(p_i)            # no drawdown at all: frac-face pressure equals initial pressure
    if u < 0.15:
        r = rng.choice([0.99, 0.995, 0.999])
        pf = max(p_lo, r * p_i)
    elif u < 0.3:
        pf = p_lo
    else:
        pf = p_lo + rng.uniform(0.0, 0.95) * (p_i - p_lo)
    return round(float(pf), 3) if pf != p_lo else float(p_lo)


GRID_FAMILIES = ("uniform", "quadratic", "geometric", "random", "bigstep", "single", "integer")


def draw_grid(rng, n=None, families=GRID_FAMILIES, lattice=False, nmax=40):
    fam = rng.choice(list(families))
    if fam == "single":
        n = 2
    elif n is None:
        n = rng.choice([2, 3, 4, 5, 8, 12, 20, nmax, 1] if rng.random() < 0.15 else [2, 3, 4, 5, 8, 12, 20, nmax])
    T = 10.0 ** rng.uniform(-3, 1.5)
    t0 = 0.0 if rng.random() < 0.6 else 10.0 ** rng.uniform(-3, 1)
    if fam in ("uniform", "single"):
        t = np.linspace(0, T, n)
    elif fam == "quadratic":
        t = np.linspace(0, np.sqrt(T), n) ** 2
    elif fam == "geometric":
        t = np.concatenate([[0.0], np.geomspace(T * 1e-4, T, n - 1)]) if n > 2 else np.array([0.0, T])
    elif fam == "random":
        inc = np.array([rng.uniform(0.05, 1.0) for _ in range(n - 1)])
        t = np.concatenate([[0.0], np.cumsum(inc)]) * T / max(1e-300, inc.sum())
    elif fam == "bigstep":
        inc = np.array([10.0 ** rng.uniform(0, 4) for _ in range(n - 1)])
        t = np.concatenate([[0.0], np.cumsum(inc)])
    elif fam == "tiny":
        # very small, strongly varying increments (absolute tolerances on dt become visible)
        lo = rng.uniform(-10, -6)
        inc = np.array([10.0 ** (lo + rng.uniform(0, 2)) for _ in range(n - 1)])
        t = np.concatenate([[0.0], np.cumsum(inc)])
    elif fam == "nearly_uniform":
        # uniform spacing with a small relative jitter (a lagged or cached increment is nearly right)
        jit = 10.0 ** rng.uniform(-7, -2)
        inc = np.array([1.0 + jit * rng.uniform(-1, 1) for _ in range(n - 1)]) * (T / max(1, n - 1))
        t = np.concatenate([[0.0], np.cumsum(inc)])
    elif fam == "integer":
        # whole-number times, handed to the library as an int64 array (days on production are often ints)
        inc = np.array([rng.choice([1, 1, 2, 3, 7]) for _ in range(n - 1)], dtype=float)
        t = np.concatenate([[0.0], np.cumsum(inc)])
        t0 = float(rng.choice([0, 0, 1, 5, 30]))
        t = t + t0
        return {"family": fam, "t": [float(v) for v in t], "dtype": "int64"}
    elif fam == "ramp":
        # slowly growing increments: consecutive steps differ by a small relative amount
        r = 1.0 + 10.0 ** rng.uniform(-6, -1)
        inc = (T / max(1, n - 1)) * r ** np.arange(n - 1)
        t = np.concatenate([[0.0], np.cumsum(inc)])
    else:
        raise ValueError(fam)
    t = t + t0
    if lattice:
        q = 2.0 ** -20
        t = np.round(t / q) * q
        for i in range(1, len(t)):  # keep strictly increasing on the lattice
            if t[i] <= t[i - 1]:
                t[i] = t[i - 1] + q
    return {"family": fam, "t": [float(v) for v in t]}


def same_length_variant(rng, grid, lattice=False):
    """Another grid with the same number of points and different values."""
    n = len(grid["t"])
    if n > 2 and rng.random() < 0.3 and grid.get("dtype") is None:
        # same length AND same end points, different interior spacing (a memo keyed on shape/ends is stale)
        t = np.asarray(grid["t"], dtype=float)
        span = t[-1] - t[0]
        if span > 0:
            w = ((t - t[0]) / span) ** rng.choice([2.0, 0.5, 3.0])
            tb = t[0] + span * w
            tb[0], tb[-1] = t[0], t[-1]
            if lattice:
                q = 2.0 ** -20
                tb = np.round(tb / q) * q
            if np.all(np.diff(tb) > 0) and not np.array_equal(tb, t):
                return {"family": "warped_same_ends", "t": [float(v) for v in tb]}
    for _ in range(20):
        g = draw_grid(rng, n=n, families=[f for f in GRID_FAMILIES if f != "single"] if n > 2 else ("single",),
                      lattice=lattice)
        if len(g["t"]) == n and g["t"] != grid["t"]:
            return g
    t = np.array(grid["t"]) * 1.5 + 0.25
    return {"family": "scaled", "t": [float(v) for v in t]}


def continuation_of(grid, prev):
    """Shift ``grid`` so that it starts exactly where ``prev`` ends (a restart / continuation run)."""
    t = np.asarray(grid["t"], dtype=float)
    t = t - t[0] + float(prev["t"][-1])
    out = dict(grid)
    out["t"] = [float(v) for v in t]
    out["family"] = grid["family"] + "+continuation"
    out.pop("dtype", None)
    return out


def other_length_variant(rng, grid, lattice=False, nmax=40):
    n = len(grid["t"])
    for _ in range(50):
        g = draw_grid(rng, lattice=lattice, nmax=nmax)
        if len(g["t"]) != n:
            return g
    g = draw_grid(rng, n=n + 1, families=("uniform",), lattice=lattice)
    return g


def draw_schedule(rng, fspec, pf, n, kind=None):
    """Frac-face pressure schedule of length n (all inside the table, <= p_i)."""
    p_lo, p_i = fspec["_p_lo"], fspec["p_i"]
    kind = kind or rng.choice(["const", "step_down", "ramp", "random", "rise", "shutin", "shutin", "buildup"])
    if kind == "const":
        v = [float(pf)] * n
    elif kind == "step_down":
        k = rng.randrange(0, n)
        lo = p_lo + 0.5 * (pf - p_lo)
        v = [float(pf)] * k + [float(lo)] * (n - k)
    elif kind == "ramp":
        v = list(np.linspace(min(p_i, pf * 1.05 + 1), pf, n))
    elif kind == "random":
        v = [p_lo + rng.random() * (p_i - p_lo) for _ in range(n)]
    elif kind == "shutin":
        # drawdown, a shut-in block at exactly the initial pressure, optionally drawdown again
        a = rng.randrange(0, max(1, n - 1))
        b = rng.randrange(a, n) + 1
        v = [float(pf)] * a + [float(p_i)] * (b - a) + [float(pf)] * (n - b)
    elif kind == "buildup":
        # frac-face pressure temporarily above the initial pressure (injection / frac hit), inside the table
        top = min(float(fspec["_p_hi"]), p_i + 0.1 * (p_i - p_lo))
        a = rng.randrange(0, max(1, n - 1))
        b = rng.randrange(a, n) + 1
        v = [float(pf)] * a + [float(top)] * (b - a) + [float(pf)] * (n - b)
    else:
        v = list(np.linspace(pf, min(p_i, pf + 0.3 * (p_i - pf)), n))
    return {"kind": kind, "v": [float(x) for x in v]}


def grid_array(g):
    """The array handed to the library for a grid spec (int64 when the spec says so)."""
    if g.get("dtype") == "int64":
        return np.array([int(round(v)) for v in g["t"]], dtype=np.int64)
    return np.array(g["t"], dtype=float)
