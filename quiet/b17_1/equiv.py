"""Evidence that property C17 holds for the library found on PYTHONPATH.

Change b1: tridiagonal systems are solved in LAPACK banded storage
(scipy.linalg.solve_banded), time increments and the x=0 boundary right-hand
side are formed once per run.

Every expectation below is derived from the statement of C17 (relations between
pairs of runs, rejected inputs, interpolator end values), not from the old code.
One extra section checks the marching scheme against a dense textbook solve of
the documented linear system, to show the new solver is a solver of that system.

Run:  PYTHONPATH=<checkout>/src /venv/bin/python equiv.py
"""

from __future__ import annotations

import sys
import warnings

import numpy as np
from scipy.integrate import cumulative_trapezoid

from bluebonnet.flow import FlowProperties, IdealReservoir, SinglePhaseReservoir

FAILURES: list[str] = []
CHECKS = 0


def check(ok: bool, label: str) -> None:
    global CHECKS
    CHECKS += 1
    if not ok:
        FAILURES.append(label)
        print("FAIL:", label)


def raises(exc, fn, *a, **kw) -> bool:
    try:
        fn(*a, **kw)
    except exc:
        return True
    except Exception as e:  # noqa: BLE001
        print("   unexpected", type(e).__name__, e)
        return False
    return False


def make_fluid(p_i: float = 6000.0) -> FlowProperties:
    """Synthetic real-gas table (no files needed)."""
    pressure = np.linspace(14.7, 12000.0, 600)
    z = 1.0 - 2.2e-5 * pressure + 3.1e-9 * pressure**2
    viscosity = 0.012 + 1.9e-6 * pressure + 4.0e-11 * pressure**2
    compressibility = 1.0 / pressure - (-2.2e-5 + 6.2e-9 * pressure) / z
    pseudopressure = 2 * cumulative_trapezoid(pressure / (viscosity * z), pressure, initial=0.0)
    table = {
        "pressure": pressure,
        "z-factor": z,
        "viscosity": viscosity,
        "compressibility": compressibility,
        "pseudopressure": pseudopressure + 1.0,
    }
    return FlowProperties(table, p_i)


def close(a, b, rtol=1e-12, atol=1e-13) -> bool:
    a, b = np.asarray(a, dtype=float), np.asarray(b, dtype=float)
    return a.shape == b.shape and bool(np.all(np.abs(a - b) <= atol + rtol * np.abs(b)))


P_I = 6000.0
P_F = 800.0
FLUID = make_fluid(P_I)
NX = 24

# grids whose entries are dyadic rationals: shifting by a power of two is exact in
# floating point, so the shifted run has to agree to the last few bits
dyadic = np.arange(0, 60, dtype=float) ** 2 / 1024.0
sqrt_grid = np.linspace(0, np.sqrt(4.0), 80) ** 2
rng = np.random.default_rng(17)
ragged = np.concatenate([[0.0], np.cumsum(rng.uniform(1e-3, 8e-2, 70))])
integer_grid = np.arange(0, 40, dtype=np.int64)
negative_grid = sqrt_grid - 11.5
grids = {
    "dyadic": dyadic,
    "sqrt": sqrt_grid,
    "ragged": ragged,
    "integer": integer_grid,
    "negative": negative_grid,
    "tiny": np.array([0.0, 0.25]),
}


def schedules(n: int) -> dict[str, np.ndarray]:
    ramp = np.linspace(P_F, 0.35 * P_F, n)
    shut_in = np.full(n, P_F)
    shut_in[n // 3 : n // 2] = P_I  # shut-in at initial pressure
    build_up = np.full(n, P_F)
    build_up[n // 2 :] = P_I + 900.0  # above initial pressure
    wiggle = P_F * (1.0 + 0.3 * np.sin(np.arange(n) * 0.7))  # non-monotone
    return {"ramp": ramp, "shut_in": shut_in, "build_up": build_up, "wiggle": wiggle}


def run(cls, time, schedule=None, fluid=FLUID):
    res = cls(NX, P_F, P_I, fluid)
    if schedule is None:
        res.simulate(time)
    else:
        res.simulate(time, schedule)
    return res


# ---------------------------------------------------------------------------
# 1. time-origin shifts
# ---------------------------------------------------------------------------
for name, grid in grids.items():
    for cls in (IdealReservoir, SinglePhaseReservoir):
        base = run(cls, grid)
        rf_base = base.recovery_factor().copy()
        check(np.all(np.isfinite(base.pseudopressure)), f"finite field {cls.__name__} {name}")
        for shift in (64.0, -8.0, 4096.0) if name != "integer" else (64, -8, 4096):
            moved = run(cls, grid + shift)
            rf_moved = moved.recovery_factor()
            exact = name in ("dyadic", "integer", "tiny")
            tol = dict(rtol=1e-13, atol=1e-14) if exact else dict(rtol=1e-7, atol=1e-9)
            check(
                close(moved.pseudopressure, base.pseudopressure, **tol),
                f"shift {shift} field {cls.__name__} {name}",
            )
            check(close(rf_moved, rf_base, **tol), f"shift {shift} recovery {cls.__name__} {name}")
            check(
                close(moved.recovery_factor_interpolator()(grid + shift), rf_base, **tol),
                f"shift {shift} interpolator {cls.__name__} {name}",
            )

# shifts with time-varying schedules (SinglePhaseReservoir only takes a schedule)
for sname, sched in schedules(len(dyadic)).items():
    base = run(SinglePhaseReservoir, dyadic, sched)
    moved = run(SinglePhaseReservoir, dyadic - 256.0, sched)
    check(
        close(moved.pseudopressure, base.pseudopressure, rtol=1e-13, atol=1e-14),
        f"shift with schedule {sname}: field",
    )
    check(
        close(moved.recovery_factor(), base.recovery_factor(), rtol=1e-13, atol=1e-14),
        f"shift with schedule {sname}: recovery",
    )
    check(np.all(np.isfinite(base.pseudopressure)), f"finite field schedule {sname}")

# ---------------------------------------------------------------------------
# 2. constant schedule == scalar setting, exactly
# ---------------------------------------------------------------------------
for name, grid in grids.items():
    n = len(grid)
    scalar = run(SinglePhaseReservoir, grid)
    forms = {
        "float array": np.full(n, float(P_F)),
        "int array": np.full(n, int(P_F)),
        "list": [P_F] * n,
    }
    for fname, const in forms.items():
        sched = run(SinglePhaseReservoir, grid, const)
        check(
            np.array_equal(sched.pseudopressure, scalar.pseudopressure),
            f"constant schedule ({fname}) field exact, {name}",
        )
        check(
            np.array_equal(sched.recovery_factor(), scalar.recovery_factor()),
            f"constant schedule ({fname}) recovery exact, {name}",
        )
    # a schedule applies to that run only: a later scalar run is the scalar result
    res = run(SinglePhaseReservoir, grid, schedules(n)["ramp"])
    res.simulate(grid)
    check(np.array_equal(res.pseudopressure, scalar.pseudopressure), f"schedule is per-run, {name}")
    check(res.pressure_fracface == P_F, f"scalar setting untouched, {name}")

# ---------------------------------------------------------------------------
# 3. schedule length != len(time) is rejected
# ---------------------------------------------------------------------------
for name, grid in grids.items():
    n = len(grid)
    for m in sorted({0, 1, n - 1, n + 1, 2 * n} - {n}):
        res = SinglePhaseReservoir(NX, P_F, P_I, FLUID)
        check(
            raises(ValueError, res.simulate, grid, np.full(m, P_F)),
            f"length {m} vs {n} rejected on fresh object ({name})",
        )
        check(raises(RuntimeError, res.recovery_factor), f"still no results after rejection ({name})")
        # rejected call in the middle of a history: earlier results stay valid
        good = run(SinglePhaseReservoir, grid)
        before_pp = good.pseudopressure.copy()
        before_rf = good.recovery_factor().copy()
        check(raises(ValueError, good.simulate, grid + 5, np.full(m, P_F)), "rejected mid-history")
        check(np.array_equal(good.pseudopressure, before_pp), "field untouched by rejected call")
        check(np.array_equal(good.recovery_factor(), before_rf), "recovery untouched by rejected call")
        check(np.array_equal(np.asarray(good.time, dtype=float), grid), "time untouched by rejected call")

# ---------------------------------------------------------------------------
# 4. recovery before any simulation raises
# ---------------------------------------------------------------------------
for cls in (IdealReservoir, SinglePhaseReservoir):
    res = cls(NX, P_F, P_I, FLUID)
    check(raises(RuntimeError, res.recovery_factor), f"recovery_factor before simulate {cls.__name__}")
    check(
        raises(RuntimeError, res.recovery_factor_interpolator),
        f"interpolator before simulate {cls.__name__}",
    )
    check(raises(RuntimeError, res.recovery_factor), "still raises on second request")

# ---------------------------------------------------------------------------
# 5. interpolator: nodes, before first, after last
# ---------------------------------------------------------------------------
for name, grid in grids.items():
    for cls in (IdealReservoir, SinglePhaseReservoir):
        for interp_first in (True, False):
            res = run(cls, grid)
            if interp_first:
                f = res.recovery_factor_interpolator()
                rf = res.recovery_factor()
            else:
                rf = res.recovery_factor()
                f = res.recovery_factor_interpolator()
            g = np.asarray(grid, dtype=float)
            span = g[-1] - g[0]
            check(close(f(g), rf, rtol=1e-12, atol=1e-14), f"interp nodes {cls.__name__} {name}")
            before = np.array([g[0] - 1e-9 * max(1, abs(g[0])) - 1e-12, g[0] - span, g[0] - 1e6])
            after = np.array([g[-1] + 1e-9 * max(1, abs(g[-1])) + 1e-12, g[-1] + span, g[-1] + 1e6])
            check(np.all(f(before) == 0.0), f"interp before first {cls.__name__} {name}")
            check(np.all(f(after) == rf[-1]), f"interp after last {cls.__name__} {name}")
            check(float(f(g[0])) == 0.0 and rf[0] == 0.0, f"interp at first {cls.__name__} {name}")
            check(float(f(g[-1])) == rf[-1] or close(f(g[-1]), rf[-1]), f"interp at last {name}")
            mid = 0.5 * (g[:-1] + g[1:])
            lo, hi = np.minimum(rf[:-1], rf[1:]), np.maximum(rf[:-1], rf[1:])
            fm = f(mid)
            check(np.all((fm >= lo - 1e-14) & (fm <= hi + 1e-14)), f"interp between nodes {name}")
            check(np.all(np.diff(rf) >= -1e-14) and rf[-1] > 0, f"recovery increases {cls.__name__} {name}")

# ---------------------------------------------------------------------------
# 6. histories on one object, shared fluid, old interpolators stay valid
# ---------------------------------------------------------------------------
shared = make_fluid(P_I)
a = SinglePhaseReservoir(NX, P_F, P_I, shared)
b = SinglePhaseReservoir(NX, 0.5 * P_F, P_I, shared)
c = IdealReservoir(NX, P_F, P_I, shared)
fresh_a = run(SinglePhaseReservoir, sqrt_grid, fluid=make_fluid(P_I))
a.simulate(ragged, schedules(len(ragged))["wiggle"])
f_old = a.recovery_factor_interpolator()
old_vals = f_old(ragged).copy()
b.simulate(dyadic)
c.simulate(ragged)
a.simulate(sqrt_grid)
check(np.array_equal(a.pseudopressure, fresh_a.pseudopressure), "re-run equals fresh object (field)")
check(
    np.array_equal(a.recovery_factor_interpolator()(sqrt_grid), fresh_a.recovery_factor_interpolator()(sqrt_grid)),
    "re-run equals fresh object (interpolator first)",
)
check(np.array_equal(a.recovery_factor(), fresh_a.recovery_factor()), "re-run equals fresh object (recovery)")
check(np.array_equal(f_old(ragged), old_vals), "interpolator of an earlier run is stable")
check(len(a.recovery_factor()) == len(sqrt_grid), "recovery belongs to the latest run")
b_fresh = SinglePhaseReservoir(NX, 0.5 * P_F, P_I, make_fluid(P_I))
b_fresh.simulate(dyadic)
check(np.array_equal(b.pseudopressure, b_fresh.pseudopressure), "objects sharing a fluid are independent")
# inputs are not modified
t_in = sqrt_grid.copy()
s_in = schedules(len(t_in))["build_up"]
s_copy = s_in.copy()
a.simulate(t_in, s_in)
check(np.array_equal(t_in, sqrt_grid) and np.array_equal(s_in, s_copy), "inputs not modified")

# ---------------------------------------------------------------------------
# 7. the marching scheme solves the documented linear system (dense textbook solve)
# ---------------------------------------------------------------------------


def dense_matrix(k):
    n = len(k)
    m = np.zeros((n, n))
    for r in range(n):
        m[r, r] = 1.0 + 2 * k[r]
        if r > 0:
            m[r, r - 1] = -k[r]
        if r < n - 1:
            m[r, r + 1] = -k[r]
    m[-1, -1] = 1.0 + k[-1]
    return m


def dense_ideal(time, nx):
    dx2 = (1.0 / (nx - 1)) ** 2
    pp = np.ones((len(time), nx))
    for i in range(len(time) - 1):
        k = np.full(nx, (time[i + 1] - time[i]) / dx2)
        pp[i + 1] = np.linalg.solve(dense_matrix(k), pp[i])
    return pp


def dense_single(time, nx, fluid, sched):
    dx2 = (1.0 / nx) ** 2
    m_i = float(fluid.m_i)
    m_f = fluid.m_scaled_func(sched)
    a_i = fluid.alpha(m_i)
    pp = np.full((len(time), nx), m_i)
    pp[0, 0] = m_f[0]
    for i in range(len(time) - 1):
        r = (time[i + 1] - time[i]) / dx2
        rhs = np.minimum(pp[i], m_i)
        rhs[0] = m_f[i] + fluid.alpha(m_f[i]) / a_i * m_f[i] * r
        k = r * fluid.alpha(rhs) / a_i
        pp[i + 1] = np.linalg.solve(dense_matrix(k), rhs)
    return pp


for name in ("ragged", "negative", "integer", "tiny"):
    grid = grids[name]
    check(
        close(run(IdealReservoir, grid).pseudopressure, dense_ideal(grid, NX), rtol=1e-11, atol=1e-13),
        f"ideal scheme vs dense solve, {name}",
    )
    for sname, sched in {"const": np.full(len(grid), P_F), **schedules(len(grid))}.items():
        got = run(SinglePhaseReservoir, grid, sched).pseudopressure
        check(
            close(got, dense_single(grid, NX, FLUID, sched), rtol=1e-11, atol=1e-13),
            f"single-phase scheme vs dense solve, {name}/{sname}",
        )

print(f"{CHECKS} checks, {len(FAILURES)} failures")
sys.exit(1 if FAILURES else 0)
