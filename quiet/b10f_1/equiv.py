"""Check of property C10 (results always reflect the most recent simulation).

Run as:  PYTHONPATH=<checkout>/src /venv/bin/python equiv.py

The expectations are derived from the property itself:
  * a reservoir that went through a history of calls must show the same stored
    time / pseudopressure, the same values from every recovery call made after
    the latest simulation and the same interpolator output as a FRESH reservoir
    on which only the latest simulation and the recovery calls after it ran;
  * repeating a call returns the same result;
and from an independent re-statement (in this file) of the numerical scheme and
of the recovery formulae, so that the numbers themselves are pinned as well.
"""

from __future__ import annotations

import itertools
import os
import random
import sys
import warnings

import numpy as np
import pandas as pd
from scipy import integrate, interpolate, sparse

warnings.simplefilter("ignore")

import bluebonnet  # noqa: E402
from bluebonnet.flow import (  # noqa: E402
    FlowProperties,
    IdealReservoir,
    SinglePhaseReservoir,
)

RTOL = 1e-9  # "rounding level"
P_I = 8000.0
NX = 14
N_CHECKS = 0


def ok(cond, what):
    global N_CHECKS
    N_CHECKS += 1
    if not cond:
        print("FAIL:", what)
        sys.exit(1)


def same(a, b, what, exact=False):
    a = np.asarray(a, dtype=float)
    b = np.asarray(b, dtype=float)
    ok(a.shape == b.shape, f"{what}: shapes {a.shape} vs {b.shape}")
    if exact:
        ok(np.array_equal(a, b, equal_nan=True), f"{what}: not identical")
    else:
        scale = max(1.0, float(np.nanmax(np.abs(b)))) if b.size and np.isfinite(b).any() else 1.0
        ok(
            np.allclose(a, b, rtol=RTOL, atol=RTOL * scale, equal_nan=True),
            f"{what}: differ by {np.nanmax(np.abs(a - b)) if a.size else 0}",
        )


def raises(exc, fn, what):
    try:
        fn()
    except exc as e:
        ok(True, what)
        return e
    except BaseException as e:  # noqa: BLE001
        ok(False, f"{what}: expected {exc.__name__}, got {type(e).__name__}: {e}")
    ok(False, f"{what}: expected {exc.__name__}, nothing raised")
    return None


# --------------------------------------------------------------------------- fluid
def _pvt_table():
    root = os.path.dirname(os.path.dirname(os.path.dirname(os.path.abspath(bluebonnet.__file__))))
    path = os.path.join(root, "tests", "data", "pvt_gas.csv")
    if os.path.exists(path):
        return pd.read_csv(path).rename(
            columns={
                "P": "pressure",
                "Z-Factor": "z-factor",
                "Cg": "compressibility",
                "Viscosity": "viscosity",
                "Density": "density",
            }
        )
    # synthetic, smooth, gas-like table
    p = np.linspace(0.0, 12000.0, 601)
    z = 1.0 - 2e-5 * p + 3e-9 * p**2
    mu = 0.016 + 1.5e-6 * p
    cg = 1.0 / (p + 15.0)
    rho = 0.03 + 0.002 * p / z
    m = integrate.cumulative_trapezoid(2 * p / (mu * z), p, initial=0)
    return pd.DataFrame(
        {
            "pressure": p,
            "z-factor": z,
            "compressibility": cg,
            "viscosity": mu,
            "density": rho,
            "pseudopressure": m,
        }
    )


PVT = _pvt_table()
FLUID = FlowProperties(PVT, P_I)


# ------------------------------------------------- independent statement of the maths
def _matrix(k):
    main = 1.0 + 2 * k
    main[-1] = 1.0 + k[-1]
    return sparse.diags([-k[1:], main, -k[:-1]], [-1, 0, 1], format="csr")


def ref_ideal(nx, time):
    dx2 = (1.0 / (nx - 1)) ** 2
    pp = np.empty((len(time), nx))
    pp[0] = 1.0
    for i in range(len(time) - 1):
        k = (time[i + 1] - time[i]) / dx2 * np.ones(nx)
        pp[i + 1] = sparse.linalg.spsolve(_matrix(k), pp[i])
    return pp


def ref_single(nx, fluid, pf, time, schedule=None):
    dx2 = (1.0 / nx) ** 2
    sched = np.full(len(time), pf) if schedule is None else schedule
    m_i = fluid.m_i
    m_f = fluid.m_scaled_func(sched)
    a0 = fluid.alpha(m_i)
    pp = np.empty((len(time), nx))
    pp[0] = m_i
    pp[0, 0] = m_f[0]
    for i in range(len(time) - 1):
        r = (time[i + 1] - time[i]) / dx2
        b = np.minimum(pp[i].copy(), m_i)
        b[0] = m_f[i] + fluid.alpha(m_f[i]) / a0 * m_f[i] * r
        k = r * fluid.alpha(b) / a0
        pp[i + 1] = sparse.linalg.spsolve(_matrix(k), b)
    return pp


def ref_recovery(res, time, pp, density):
    if density:
        f = interpolate.interp1d(
            res.fluid.pvt_props["m-scaled"], res.fluid.pvt_props["density"], fill_value="extrapolate"
        )
        mass = f(pp).sum(axis=1)
        cum = 1.0 - mass / mass[0]
    else:
        rate = (-pp[:, 2] + 4 * pp[:, 1] - 3 * pp[:, 0]) * (res.nx - 1.0) * 0.5
        cum = integrate.cumulative_trapezoid(rate, time, initial=0)
    scale = 1 if isinstance(res, SinglePhaseReservoir) else 1 - res.pressure_fracface / res.pressure_initial
    return cum * scale


def ref_interp(time, rec, tq):
    return interpolate.interp1d(time, rec, bounds_error=False, fill_value=(0, rec[-1]))(tq)


def ref_pp(res, time, schedule=None):
    if isinstance(res, SinglePhaseReservoir):
        return ref_single(res.nx, res.fluid, res.pressure_fracface, time, schedule)
    return ref_ideal(res.nx, time)


# ----------------------------------------------------------------------- histories
GRID_A = np.linspace(0.0, 1.2, 7) ** 2
GRID_B = np.linspace(0.0, 2.0, 7)  # same length as A
GRID_C = np.array([0.0, 0.01, 0.05, 0.3, 2.5])  # other length
GRIDS = {"A": GRID_A, "B": GRID_B, "C": GRID_C}
OPS = ("simA", "simB", "simC", "rf", "rfd", "interp")


def query_points(time):
    lo, hi = float(np.min(time)), float(np.max(time))
    span = (hi - lo) or 1.0
    return np.concatenate([[lo - span, lo], lo + span * np.array([0.07, 0.31, 0.5, 0.93]), [hi, hi + span]])


def apply(res, op):
    """Apply one call; return ('kind', value)."""
    if op.startswith("sim"):
        res.simulate(GRIDS[op[3:]].copy())
        return ("sim", None)
    try:
        if op == "rf":
            return ("rf", np.array(res.recovery_factor()))
        if op == "rfd":
            return ("rf", np.array(res.recovery_factor(density=True)))
        f = res.recovery_factor_interpolator()
        return ("interp", (f, np.array(f(query_points(res.time)))))
    except RuntimeError as e:
        return ("err", str(e))


def reduce_history(history):
    """The latest simulation and the recovery calls made after it."""
    last = max((i for i, op in enumerate(history) if op.startswith("sim")), default=None)
    if last is None:
        return None, []
    return last, [(j, op) for j, op in enumerate(history) if j >= last and op != "interp"]


def check_history(make, history, label):
    """The property, for one history on one reservoir object."""
    res = make()
    out = [apply(res, op) for op in history]
    last, reduced = reduce_history(history)
    if last is None:
        ok(all(kind == "err" for kind, _ in out), f"{label}: reads before any simulate must raise")
        ok(not hasattr(res, "time") and not hasattr(res, "pseudopressure"), f"{label}: no results yet")
        return
    ok(all(kind != "err" for kind, _ in out[last:]), f"{label}: no read may fail after a simulate")
    # stored results
    fresh = make()
    fresh_out = {j: apply(fresh, op) for j, op in reduced}
    same(res.time, fresh.time, f"{label}: time", exact=True)
    same(res.pseudopressure, fresh.pseudopressure, f"{label}: pseudopressure")
    grid = GRIDS[history[last][3:]]
    same(res.time, grid, f"{label}: time is the latest grid", exact=True)
    same(res.pseudopressure, ref_pp(res, grid), f"{label}: pseudopressure vs restated scheme")
    # every recovery value returned after the latest simulate
    for j, op in reduced[1:]:
        same(out[j][1], fresh_out[j][1], f"{label}: value of call {j} ({op})")
        same(out[j][1], ref_recovery(res, grid, res.pseudopressure, op == "rfd"), f"{label}: call {j} vs formula")
    # interpolators obtained after the latest simulate: the fresh object has seen
    # only the recovery calls made before that point
    tq = query_points(grid)
    for j in range(last + 1, len(history) + 1):
        if j < len(history) and history[j] != "interp":
            continue
        f2 = make()
        for _, op in reduced:
            if _ < j:
                apply(f2, op)
        expected = f2.recovery_factor_interpolator()(tq)
        if j < len(history):
            same(out[j][1][1], expected, f"{label}: interpolator of call {j}")
            # an interpolator kept by the caller does not change afterwards
            same(out[j][1][0](tq), out[j][1][1], f"{label}: kept interpolator {j} is stable", exact=True)
        else:
            got = res.recovery_factor_interpolator()(tq)
            same(got, expected, f"{label}: interpolator after the history")
            # which recovery does it stand for?  the latest recovery call, else the default one
            rec_ops = [op for _, op in reduced[1:]]
            dens = bool(rec_ops) and rec_ops[-1] == "rfd"
            # (an earlier interpolator call computes and keeps the default recovery)
            if not rec_ops:
                dens = False
            rec = ref_recovery(res, grid, res.pseudopressure, dens)
            same(got, ref_interp(grid, rec, tq), f"{label}: interpolator vs formula")
            same(res.recovery, rec, f"{label}: stored recovery")
    # interpolators kept from before the latest simulate still give what they gave
    for j in range(last):
        if out[j][0] == "interp":
            f, vals = out[j][1]
            prev_grid = GRIDS[[op for op in history[:j] if op.startswith("sim")][-1][3:]]
            same(f(query_points(prev_grid)), vals, f"{label}: old interpolator {j} unchanged", exact=True)
    # repeating a call gives the same result
    a = res.recovery_factor()
    a = np.array(a)
    same(res.recovery_factor(), a, f"{label}: repeat rf", exact=True)
    d = np.array(res.recovery_factor(density=True))
    same(res.recovery_factor(density=True), d, f"{label}: repeat rf density", exact=True)
    same(res.recovery_factor(), a, f"{label}: rf after density", exact=True)
    g1 = res.recovery_factor_interpolator()(tq)
    same(res.recovery_factor_interpolator()(tq), g1, f"{label}: repeat interpolator", exact=True)
    same(g1, ref_interp(grid, a, tq), f"{label}: interpolator follows latest recovery call")
    same(res.time, grid, f"{label}: reads leave time alone", exact=True)
    same(res.pseudopressure, fresh.pseudopressure, f"{label}: reads leave pseudopressure alone")


def makers(pf=1000.0):
    return {
        "ideal": lambda: IdealReservoir(NX, pf, P_I, FLUID),
        "single": lambda: SinglePhaseReservoir(NX, pf, P_I, FLUID),
    }


def run_histories(max_len=4, n_random=60, random_len=9, seed=41):
    rng = random.Random(seed)
    for name, make in makers().items():
        for n in range(1, max_len + 1):
            for hist in itertools.product(OPS, repeat=n):
                check_history(make, hist, f"{name} {'/'.join(hist)}")
        for _ in range(n_random):
            hist = tuple(rng.choice(OPS) for _ in range(random_len))
            check_history(make, hist, f"{name} {'/'.join(hist)}")


# ------------------------------------------------------------------- special grids
SPECIAL_GRIDS = {
    "integer dtype": np.array([0, 1, 2, 5, 9]),
    "shifted": np.array([10.0, 10.1, 10.4, 11.0, 12.5]),
    "negative": np.array([-3.0, -2.5, -1.0, 0.0, 0.5, 2.0]),
    "single point": np.array([0.5]),
    "two points": np.array([0.0, 0.3]),
    "non-uniform": np.array([0.0, 1e-4, 1e-2, 0.011, 0.5, 3.0, 3.0001]),
}
SCHEDULES = {
    "constant": lambda n: np.full(n, 1000.0),
    "shut-in then build-up above p_i": lambda n: np.r_[np.full(n // 2, 2000.0), np.full(n - n // 2, 8000.0)][:n]
    + np.r_[np.zeros(n - 1), 900.0],
    "ramp": lambda n: np.linspace(7000.0, 500.0, n),
    "at p_i": lambda n: np.full(n, P_I),
}


def run_special_grids(pf_values=(1000.0, P_I)):
    for pf in pf_values:
        for name, make in makers(pf).items():
            for gname, grid in SPECIAL_GRIDS.items():
                scheds = [None]
                if name == "single":
                    scheds += [s(len(grid)) for s in SCHEDULES.values()]
                for sched in scheds:
                    label = f"{name} pf={pf} grid={gname} sched={'no' if sched is None else sched.tolist()}"
                    res = make()
                    # some unrelated earlier activity on the same object
                    res.simulate(GRID_A.copy())
                    res.recovery_factor(density=True)
                    old = res.recovery_factor_interpolator()
                    old_vals = old(query_points(GRID_A))
                    args = (grid.copy(),) if sched is None else (grid.copy(), sched.copy())
                    res.simulate(*args)
                    ok(not hasattr(res, "recovery"), f"{label}: no recovery carried over")
                    ok(res.pressure_fracface == pf, f"{label}: schedule applies to that run only")
                    fresh = make()
                    fresh.simulate(*args)
                    same(res.time, grid, f"{label}: time", exact=True)
                    ok(np.asarray(res.time).dtype == grid.dtype, f"{label}: dtype of time kept")
                    same(res.pseudopressure, fresh.pseudopressure, f"{label}: pseudopressure")
                    same(res.pseudopressure, ref_pp(res, grid, sched), f"{label}: pseudopressure vs scheme")
                    tq = query_points(grid)
                    same(
                        res.recovery_factor_interpolator()(tq),
                        fresh.recovery_factor_interpolator()(tq),
                        f"{label}: interpolator without a recovery call",
                    )
                    for dens in (False, True, False):
                        got = np.array(res.recovery_factor(density=dens))
                        same(got, fresh.recovery_factor(density=dens), f"{label}: rf density={dens}")
                        same(got, ref_recovery(res, grid, res.pseudopressure, dens), f"{label}: rf vs formula")
                        same(res.recovery, got, f"{label}: stored recovery", exact=True)
                        same(
                            res.recovery_factor_interpolator()(tq),
                            ref_interp(grid, got, tq),
                            f"{label}: interpolator density={dens}",
                        )
                    same(old(query_points(GRID_A)), old_vals, f"{label}: kept interpolator", exact=True)


def run_shared_fluid():
    """Several objects sharing one fluid do not see each other's results."""
    a = SinglePhaseReservoir(NX, 1000.0, P_I, FLUID)
    b = SinglePhaseReservoir(NX, 3000.0, P_I, FLUID)
    c = IdealReservoir(NX, 1000.0, P_I, FLUID)
    a.simulate(GRID_A.copy())
    ra = np.array(a.recovery_factor())
    b.simulate(GRID_C.copy())
    c.simulate(GRID_B.copy())
    rb = np.array(b.recovery_factor(density=True))
    rc = np.array(c.recovery_factor())
    same(a.recovery_factor(), ra, "shared fluid: a unchanged", exact=True)
    same(a.recovery, ra, "shared fluid: a.recovery", exact=True)
    same(b.recovery, rb, "shared fluid: b.recovery", exact=True)
    same(c.recovery, rc, "shared fluid: c.recovery", exact=True)
    same(a.time, GRID_A, "shared fluid: a.time", exact=True)
    same(b.time, GRID_C, "shared fluid: b.time", exact=True)
    same(a.recovery_factor_interpolator()(0.4), ref_interp(GRID_A, ra, 0.4), "shared fluid: a interp")
    same(b.recovery_factor_interpolator()(0.4), ref_interp(GRID_C, rb, 0.4), "shared fluid: b interp")


class Boom(Exception):
    pass


def failing_fluid(after):
    """A fluid whose diffusivity raises after `after` evaluations."""

    class F:
        def __init__(self):
            self.m_i = FLUID.m_i
            self.m_scaled_func = FLUID.m_scaled_func
            self.pvt_props = FLUID.pvt_props
            self.calls = 0
            self.armed = True

        def alpha(self, m):
            self.calls += 1
            if self.armed and self.calls > after:
                raise Boom("diffusivity failed")
            return FLUID.alpha(m)

    return F()


# ===================================================================== change b1
# Transactional simulate: a call that raises leaves the previous run in place.
# Reading relied on: "the latest simulation" is the latest simulation that was
# carried out, i.e. the latest simulate call that returned.
def snapshot(res):
    return {
        "time": np.array(res.time),
        "pp": np.array(res.pseudopressure),
        "recovery": np.array(res.recovery) if hasattr(res, "recovery") else None,
        "time_obj": res.time,
        "pp_obj": res.pseudopressure,
    }


def unchanged(res, snap, label):
    ok(res.time is snap["time_obj"], f"{label}: same time object")
    ok(res.pseudopressure is snap["pp_obj"], f"{label}: same pseudopressure object")
    same(res.time, snap["time"], f"{label}: time", exact=True)
    same(res.pseudopressure, snap["pp"], f"{label}: pseudopressure", exact=True)
    if snap["recovery"] is None:
        ok(not hasattr(res, "recovery"), f"{label}: still no recovery")
    else:
        same(res.recovery, snap["recovery"], f"{label}: recovery", exact=True)


def run_failures():
    # --- single phase: wrong-length schedule, out-of-table schedule, failing fluid, interrupt
    for prior in ((), ("rf",), ("rfd",), ("interp",), ("rf", "rfd")):
        fluid = failing_fluid(after=10**9)
        res = SinglePhaseReservoir(NX, 1000.0, P_I, fluid)
        res.simulate(GRID_A.copy())
        for op in prior:
            apply(res, op)
        kept = res.recovery_factor_interpolator() if prior else None
        snap = snapshot(res)
        tq = query_points(GRID_A)
        kept_vals = kept(tq) if kept else None
        label = f"b1 single prior={prior}"
        raises(ValueError, lambda: res.simulate(GRID_B.copy(), np.full(3, 1000.0)), f"{label}: wrong length")
        unchanged(res, snap, f"{label} after wrong length")
        raises(ValueError, lambda: res.simulate(GRID_B.copy(), np.full(len(GRID_B), 9e9)), f"{label}: off table")
        unchanged(res, snap, f"{label} after off-table schedule")
        raises((AttributeError, TypeError), lambda: res.simulate(None), f"{label}: time=None")
        unchanged(res, snap, f"{label} after time=None")
        for after in (0, 3, 9, 14):
            res.fluid = failing_fluid(after)
            raises(Boom, lambda: res.simulate(GRID_C.copy()), f"{label}: fluid fails after {after}")
            unchanged(res, snap, f"{label} after fluid failure at {after}")
            res.fluid = fluid
        # an interrupt in the middle of the time loop
        class Interrupting(SinglePhaseReservoir):
            n = 0

            def alpha_scaled(self, m):
                type(self).n += 1
                if type(self).n > 5:
                    raise KeyboardInterrupt
                return super().alpha_scaled(m)

        res.__class__ = Interrupting
        raises(KeyboardInterrupt, lambda: res.simulate(GRID_C.copy()), f"{label}: interrupt")
        res.__class__ = SinglePhaseReservoir
        unchanged(res, snap, f"{label} after interrupt")
        # reads after the failures are those of a fresh object that ran only grid A
        fresh = SinglePhaseReservoir(NX, 1000.0, P_I, FLUID)
        fresh.simulate(GRID_A.copy())
        for op in prior:
            apply(fresh, op)
        same(res.recovery_factor_interpolator()(tq), fresh.recovery_factor_interpolator()(tq), f"{label}: interp")
        if kept:
            same(kept(tq), kept_vals, f"{label}: kept interpolator", exact=True)
        same(res.recovery_factor(), fresh.recovery_factor(), f"{label}: rf")
        same(res.recovery_factor(density=True), fresh.recovery_factor(density=True), f"{label}: rfd")
        # and a later good run replaces everything
        res.simulate(GRID_C.copy(), SCHEDULES["ramp"](len(GRID_C)))
        ok(not hasattr(res, "recovery"), f"{label}: recovery dropped by the next good run")
        fresh = SinglePhaseReservoir(NX, 1000.0, P_I, FLUID)
        fresh.simulate(GRID_C.copy(), SCHEDULES["ramp"](len(GRID_C)))
        same(res.pseudopressure, fresh.pseudopressure, f"{label}: next good run")
        same(res.time, GRID_C, f"{label}: next good run time", exact=True)
        same(
            res.recovery_factor_interpolator()(query_points(GRID_C)),
            fresh.recovery_factor_interpolator()(query_points(GRID_C)),
            f"{label}: next good run interp",
        )

    # --- ideal reservoir: failing diffusivity override, bad time argument
    class Failing(IdealReservoir):
        fail_at = None
        n = 0

        def alpha_scaled(self, m):
            type(self).n += 1
            if self.fail_at is not None and type(self).n > self.fail_at:
                raise Boom
            return super().alpha_scaled(m)

    for prior in ((), ("rfd",), ("interp", "rf")):
        res = Failing(NX, 1000.0, P_I, FLUID)
        res.simulate(GRID_B.copy())
        for op in prior:
            apply(res, op)
        snap = snapshot(res)
        label = f"b1 ideal prior={prior}"
        for k in (0, 2, 3):
            Failing.n, res.fail_at = 0, k
            raises(Boom, lambda: res.simulate(GRID_C.copy()), f"{label}: fails at {k}")
            unchanged(res, snap, f"{label} after failure at {k}")
        res.fail_at = None
        raises(AttributeError, lambda: res.simulate(list(GRID_C)), f"{label}: list has no shape")
        unchanged(res, snap, f"{label} after list")
        raises(IndexError, lambda: res.simulate(np.array([])), f"{label}: empty grid")
        unchanged(res, snap, f"{label} after empty grid")
        fresh = IdealReservoir(NX, 1000.0, P_I, FLUID)
        fresh.simulate(GRID_B.copy())
        for op in prior:
            apply(fresh, op)
        tq = query_points(GRID_B)
        same(res.recovery_factor_interpolator()(tq), fresh.recovery_factor_interpolator()(tq), f"{label}: interp")
        same(res.recovery_factor(density=True), fresh.recovery_factor(density=True), f"{label}: rfd")

    # --- a failed first simulate leaves a fresh object fresh
    res = SinglePhaseReservoir(NX, 1000.0, P_I, FLUID)
    raises(ValueError, lambda: res.simulate(GRID_A.copy(), np.full(2, 1.0)), "b1: first call fails")
    ok(not hasattr(res, "time") and not hasattr(res, "pseudopressure"), "b1: nothing stored")
    raises(RuntimeError, res.recovery_factor, "b1: rf needs simulate")
    raises(RuntimeError, lambda: res.recovery_factor(density=True), "b1: rfd needs simulate")
    raises(RuntimeError, res.recovery_factor_interpolator, "b1: interpolator needs simulate")


if __name__ == "__main__":
    run_histories()
    run_special_grids()
    run_shared_fluid()
    run_failures()
    print(f"OK ({N_CHECKS} checks)")
