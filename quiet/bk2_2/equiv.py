"""Self-check for the reservoir object model (results record / memoisation changes).

Run with   PYTHONPATH=<worktree>/src  python selfcheck.py
Exits 0 when every check holds, 1 otherwise.  It is meant to pass both on the clean
tree and with the patch applied.

What is compared against what
-----------------------------
* every stored level against an independent backward-Euler update assembled here
  (dense matrix, own code), residual relative to the right-hand side;
* every object, after an arbitrary history, against a FRESH object on which only the
  latest successful simulation and the events after it are replayed (bit for bit);
* the working tree against the implementation at git HEAD of the worktree (loaded from
  `git show HEAD:...`), bit for bit, whenever git is available;
* shifted grids, constant schedules, wrong-length schedules, recovery before simulate,
  interpolator end values;
* simulations that fail part-way (solver raising at the k-th step, diffusivity raising,
  pressure outside the table) must leave the object exactly as it was.
"""

from __future__ import annotations

import copy
import pickle
import subprocess
import sys
import types
import warnings
from pathlib import Path

import numpy as np
import pandas as pd
from scipy import sparse

import bluebonnet
import bluebonnet.flow.reservoir as work
from bluebonnet.flow import FlowProperties

warnings.simplefilter("ignore")

ROOT = Path(bluebonnet.__file__).resolve().parents[2]
FAILURES: list[str] = []
COUNT = [0]
WORST = [0.0]
WORST_BACKWARD = [0.0]


def check(cond, msg):
    COUNT[0] += 1
    if not cond:
        FAILURES.append(msg)
        if len(FAILURES) <= 40:
            print("FAIL:", msg)


def same(a, b):
    """Bit-for-bit equality of two arrays (NaN equal to NaN)."""
    a, b = np.asarray(a), np.asarray(b)
    return a.shape == b.shape and bool(np.array_equal(a, b, equal_nan=True))


def close(a, b, rtol=1e-9, atol=1e-11):
    a, b = np.asarray(a, float), np.asarray(b, float)
    return a.shape == b.shape and bool(np.allclose(a, b, rtol=rtol, atol=atol))


# ----------------------------------------------------------------------------------
# reference implementation: the file at HEAD of the worktree
# ----------------------------------------------------------------------------------
def load_head_module():
    try:
        out = subprocess.run(
            ["git", "-C", str(ROOT), "show", "HEAD:src/bluebonnet/flow/reservoir.py"],
            capture_output=True,
            text=True,
            check=True,
        ).stdout
    except Exception as e:  # noqa: BLE001
        print("note: no HEAD reference available:", e)
        return None
    name = "bluebonnet.flow._reservoir_at_head"
    mod = types.ModuleType(name)
    mod.__file__ = "<HEAD:reservoir.py>"
    sys.modules[name] = mod
    exec(compile(out, mod.__file__, "exec"), mod.__dict__)  # noqa: S102
    return mod


HEAD = load_head_module()

# ----------------------------------------------------------------------------------
# fluids, grids
# ----------------------------------------------------------------------------------
renamer = {
    "P": "pressure",
    "Z-Factor": "z-factor",
    "Cg": "compressibility",
    "Viscosity": "viscosity",
    "Density": "density",
}
pvt_gas = pd.read_csv(ROOT / "tests/data/pvt_gas.csv").rename(columns=renamer)
FLUID_8000 = FlowProperties(pvt_gas, 8000.0)
FLUID_5000 = FlowProperties(pvt_gas, 5000.0)
rng = np.random.default_rng(20260210)


def grid_uniform(n, t_end=2.0):
    return np.linspace(0.0, t_end, n)


def grid_sqrt(n, t_end=9.0):
    return np.linspace(0.0, np.sqrt(t_end), n) ** 2


def grid_random(n, t_end=1.0):
    steps = rng.uniform(0.05, 1.0, n - 1) ** 3
    t = np.concatenate([[0.0], np.cumsum(steps)])
    return t * t_end / t[-1]


GRID_A = grid_sqrt(24)
GRID_B = grid_random(24)  # same length as A
GRID_C = grid_uniform(11, 0.3)  # other length
GRID_D = grid_random(37, 30.0)


# ----------------------------------------------------------------------------------
# independent backward Euler step
# ----------------------------------------------------------------------------------
def dense_matrix(k):
    """Dense matrix of (I - r d/dx alpha d/dx)-like update used by the library.

    Row j:  -k[j] u[j-1] + (1+2k[j]) u[j] - k[j] u[j+1];  first row has no lower entry,
    last row is the no-flow closure  -k[n-1] u[n-2] + (1+k[n-1]) u[n-1].
    """
    n = len(k)
    a = np.zeros((n, n))
    for j in range(n):
        a[j, j] = 1.0 + 2.0 * k[j]
        if j > 0:
            a[j, j - 1] = -k[j]
        if j < n - 1:
            a[j, j + 1] = -k[j]
    a[n - 1, n - 1] = 1.0 + k[n - 1]
    return a


def backward_euler_residuals(res, schedule=None):
    """Max over steps of |A u_new - b|_inf / |b|_inf with A, b rebuilt here."""
    t = np.asarray(res.time, float)
    u = np.asarray(res.pseudopressure)
    nx = res.nx
    single = isinstance(res, work.SinglePhaseReservoir)
    if single:
        dx2 = (1.0 / nx) ** 2
        m_i = float(res.fluid.m_i)
        pf = np.full(len(t), res.pressure_fracface) if schedule is None else np.asarray(schedule)
        m_f = res.fluid.m_scaled_func(pf)
    else:
        dx2 = (1.0 / (nx - 1.0)) ** 2
    worst = 0.0
    for i in range(len(t) - 1):
        r = (t[i + 1] - t[i]) / dx2
        if single:
            b = np.minimum(u[i], m_i).copy()
            b[0] = m_f[i] + res.alpha_scaled(m_f[i]) * m_f[i] * r
        else:
            b = u[i].copy()
        k = r * np.asarray(res.alpha_scaled(b), float)
        a = dense_matrix(k)
        resid = a @ u[i + 1] - b
        worst = max(worst, float(np.max(np.abs(resid)) / np.max(np.abs(b))))
        # the same residual in units of the rounding error of evaluating A u - b
        scale = np.abs(a) @ np.abs(u[i + 1]) + np.abs(b)
        WORST_BACKWARD[0] = max(WORST_BACKWARD[0], float(np.max(np.abs(resid) / scale)))
    return worst


def check_initial_level(res, schedule=None, tag=""):
    u = res.pseudopressure
    if isinstance(res, work.SinglePhaseReservoir):
        m_i = float(res.fluid.m_i)
        pf0 = res.pressure_fracface if schedule is None else schedule[0]
        check(np.all(u[0, 1:] == m_i), f"{tag}: initial level is m_i")
        check(u[0, 0] == float(res.fluid.m_scaled_func(pf0)), f"{tag}: frac-face node at t0")
    else:
        check(np.all(u[0] == 1.0), f"{tag}: ideal initial level is 1")


# ----------------------------------------------------------------------------------
# observation of an object
# ----------------------------------------------------------------------------------
PROBE = np.array([-1.0, 0.0, 1e-9, 1e-3, 0.017, 0.2, 0.29, 0.9, 1.0, 2.0, 8.5, 29.0, 1e3])


def observe(res):
    """Everything readable from a reservoir, without changing it."""
    obs = {}
    for name in ("time", "pseudopressure", "recovery"):
        try:
            obs[name] = getattr(res, name)
        except AttributeError:
            obs[name] = None
    return obs


def same_obs(a, b):
    for name in ("time", "pseudopressure", "recovery"):
        if (a[name] is None) != (b[name] is None):
            return False
        if a[name] is not None and not same(a[name], b[name]):
            return False
    return True


# ----------------------------------------------------------------------------------
# histories
# ----------------------------------------------------------------------------------
class Spec:
    """How to build a reservoir (constructor arguments)."""

    def __init__(self, kind, nx, pf, pi, fluid):
        self.kind, self.nx, self.pf, self.pi, self.fluid = kind, nx, pf, pi, fluid

    def build(self, module=work):
        return getattr(module, self.kind)(self.nx, self.pf, self.pi, self.fluid)


def apply_event(res, ev):
    """Apply one event; returns the value the call returned (or None)."""
    op = ev[0]
    if op == "sim":
        _, grid, schedule = ev
        if schedule is None:
            res.simulate(grid)
        else:
            res.simulate(grid, schedule)
        return None
    if op == "rf":
        return res.recovery_factor()
    if op == "rfd":
        return res.recovery_factor(density=True)
    if op == "rft":
        return res.recovery_factor(res.time)
    if op == "interp":
        return res.recovery_factor_interpolator()(PROBE)
    if op == "set":
        setattr(res, ev[1], ev[2])
        return None
    raise AssertionError(op)


def replay_fresh(spec, fields_at_sim, tail, module=work):
    """Fresh object on which only the latest simulation and the later events run."""
    fresh = spec.build(module)
    for name, value in fields_at_sim.items():
        setattr(fresh, name, value)
    returned = [apply_event(fresh, ev) for ev in tail]
    return fresh, returned


def random_history(spec, length, tag):
    """Drive one object through a random history, checking after every event."""
    single = spec.kind == "SinglePhaseReservoir"  # the class whose simulate takes a schedule
    res = spec.build()
    fields = {}  # public fields assigned after construction, as of now
    fields_at_sim = {}
    tail = None  # events since (and including) the latest successful simulate
    grids = [GRID_A, GRID_B, GRID_C, GRID_D, GRID_A + 3.25]
    for step in range(length):
        choice = rng.integers(0, 12)
        ev = None
        expect_error = None
        if choice <= 2:
            g = grids[rng.integers(0, len(grids))]
            schedule = None
            if single and rng.random() < 0.4:
                lo, hi = sorted(rng.uniform(300.0, 4000.0, 2))
                schedule = np.linspace(hi, lo, len(g))
            ev = ("sim", g, schedule)
        elif choice == 3 and single:
            g = grids[rng.integers(0, len(grids))]
            ev = ("sim", g, np.full(len(g) + int(rng.choice([-1, 1, 5])), 900.0))
            expect_error = ValueError
        elif choice == 4 and single:
            # pressure outside the table: fails before the first step
            g = grids[rng.integers(0, len(grids))]
            bad = np.full(len(g), 900.0)
            bad[len(g) // 2] = 99999.0
            ev = ("sim", g, bad)
            expect_error = ValueError
        elif choice == 5:
            ev = ("rf",)
        elif choice == 6:
            ev = ("rfd",)
        elif choice == 7:
            ev = ("interp",)
        elif choice == 8:
            ev = ("rft",) if tail is not None else ("rf",)
        elif choice == 9:
            # scalar assigned after construction
            ev = ("set", "pressure_fracface", float(rng.uniform(200.0, 3000.0)))
        elif choice == 10:
            ev = ("failsim", grids[rng.integers(0, len(grids))], int(rng.integers(0, 9)))
        else:
            ev = ("rf",)

        if ev[0] == "failsim":
            before = observe(res)
            before_copy = {k: (None if v is None else np.array(v, copy=True)) for k, v in before.items()}
            raised = simulate_with_failing_solver(res, ev[1], ev[2])
            check(raised, f"{tag}/{step}: injected solver failure propagates")
            after = observe(res)
            check(same_obs(after, before_copy), f"{tag}/{step}: failed simulate left state unchanged")
            check(after["time"] is before["time"], f"{tag}/{step}: time object unchanged")
            continue

        if tail is None and ev[0] in ("rf", "rfd", "interp"):
            expect_error = RuntimeError
        if expect_error is not None:
            before = observe(res)
            before_copy = {k: (None if v is None else np.array(v, copy=True)) for k, v in before.items()}
            try:
                apply_event(res, ev)
            except expect_error:
                pass
            except Exception as e:  # noqa: BLE001
                check(False, f"{tag}/{step}: {ev[0]} raised {type(e).__name__}, wanted {expect_error.__name__}")
            else:
                check(False, f"{tag}/{step}: {ev[0]} should raise {expect_error.__name__}")
            check(same_obs(observe(res), before_copy), f"{tag}/{step}: rejected call left state unchanged")
            continue

        returned = apply_event(res, ev)
        if ev[0] == "set":
            fields[ev[1]] = ev[2]
        if ev[0] == "sim":
            tail = [ev]
            fields_at_sim = dict(fields)
        elif tail is not None:
            tail.append(ev)
        if tail is None:
            continue

        fresh, fresh_returned = replay_fresh(spec, fields_at_sim, tail)
        check(same_obs(observe(res), observe(fresh)), f"{tag}/{step}: {ev[0]}: state equals fresh replay")
        if returned is not None:
            check(same(returned, fresh_returned[-1]), f"{tag}/{step}: {ev[0]}: returned value equals fresh replay")
        if ev[0] == "sim":
            check(res.time is ev[1], f"{tag}/{step}: stored time is the grid that was passed")
            check(observe(res)["recovery"] is None, f"{tag}/{step}: no recovery readable right after simulate")
        if ev[0] in ("rf", "rfd", "rft"):
            check(res.recovery is returned, f"{tag}/{step}: recovery attribute is the returned array")
            again = apply_event(res, ev)
            tail.append(ev)
            check(same(again, returned), f"{tag}/{step}: repeated call returns the same values")
        if HEAD is not None:
            ref, ref_returned = replay_fresh(spec, fields_at_sim, tail, HEAD)
            check(same_obs(observe(res), observe(ref)), f"{tag}/{step}: {ev[0]}: state equals HEAD implementation")
            if returned is not None:
                check(same(returned, ref_returned[len(tail) - 1 - (1 if ev[0] in ('rf', 'rfd', 'rft') else 0)]),
                      f"{tag}/{step}: {ev[0]}: value equals HEAD implementation")
    return res, tail, fields_at_sim


class InjectedFailure(Exception):
    pass


def simulate_with_failing_solver(res, grid, k):
    """Run simulate with the sparse solver raising at call number k (0-based)."""
    real = sparse.linalg.spsolve
    calls = [0]

    def flaky(*args, **kwargs):
        calls[0] += 1
        if calls[0] - 1 == k:
            raise InjectedFailure
        return real(*args, **kwargs)

    sparse.linalg.spsolve = flaky
    try:
        res.simulate(grid)
    except InjectedFailure:
        return True
    finally:
        sparse.linalg.spsolve = real
    return False


# ----------------------------------------------------------------------------------
# the checks
# ----------------------------------------------------------------------------------
def section_c04():
    print("C04: every level is the backward-Euler update of the previous one")
    cases = []
    for nx in (3, 4, 7, 30, 120, 400):
        cases.append((Spec("IdealReservoir", nx, 1000.0, 8000.0, None), None))
        cases.append((Spec("SinglePhaseReservoir", nx, 1000.0, 8000.0, FLUID_8000), None))
    cases.append((Spec("SinglePhaseReservoir", 50, 7900.0, 8000.0, FLUID_8000), None))
    cases.append((Spec("SinglePhaseReservoir", 50, 60.0, 5000.0, FLUID_5000), None))
    cases.append((Spec("TwoPhaseReservoir", 25, 500.0, 5000.0, FLUID_5000), None))
    cases.append((Spec("SinglePhaseReservoir", 40, 2000.0, 8000.0, FLUID_8000), "schedule"))
    for spec, sched in cases:
        for grid in (GRID_B, GRID_D, grid_sqrt(60, 40.0)):
            res = spec.build()
            schedule = None
            if sched:
                schedule = 4000.0 - 3000.0 * np.linspace(0, 1, len(grid)) ** 2
                res.simulate(grid, schedule)
            else:
                res.simulate(grid)
            tag = f"{spec.kind} nx={spec.nx} pf={spec.pf} nt={len(grid)}"
            worst = backward_euler_residuals(res, schedule)
            WORST[0] = max(WORST[0], worst)
            check(worst < 1e-9, f"{tag}: backward-Euler residual {worst:.2e} relative to the right-hand side")
            check(WORST_BACKWARD[0] < 2e-15, f"{tag}: componentwise backward error {WORST_BACKWARD[0]:.2e}")
            check_initial_level(res, schedule, tag)
            check(res.pseudopressure.shape == (len(grid), spec.nx), f"{tag}: shape")
            check(np.all(np.isfinite(res.pseudopressure)), f"{tag}: finite")
            if HEAD is not None:
                ref = spec.build(HEAD)
                ref.simulate(grid, schedule) if sched else ref.simulate(grid)
                check(same(ref.pseudopressure, res.pseudopressure), f"{tag}: field equals HEAD bit for bit")


def section_c10():
    print("C10: histories on one object, against fresh replays")
    specs = [
        Spec("IdealReservoir", 12, 1000.0, 8000.0, FLUID_8000),
        Spec("SinglePhaseReservoir", 9, 1500.0, 8000.0, FLUID_8000),
        Spec("SinglePhaseReservoir", 21, 300.0, 5000.0, FLUID_5000),
        Spec("TwoPhaseReservoir", 6, 2500.0, 5000.0, FLUID_5000),
        Spec("IdealReservoir", 5, 100.0, 5000.0, FLUID_5000),
    ]
    for n, spec in enumerate(specs):
        for rep in range(6):
            random_history(spec, 26, f"hist{n}.{rep}:{spec.kind}")

    print("C10: several objects interleaved (twins, shared fluid, shared grids, copies)")
    for kind in ("IdealReservoir", "SinglePhaseReservoir"):
        spec = Spec(kind, 10, 1200.0, 8000.0, FLUID_8000)
        a, b = spec.build(), spec.build()  # twins
        a.simulate(GRID_A)
        ra = a.recovery_factor()
        b.simulate(GRID_B)
        rbd = b.recovery_factor(density=True)
        fa, fb = a.recovery_factor_interpolator(), b.recovery_factor_interpolator()
        fresh_a, _ = replay_fresh(spec, {}, [("sim", GRID_A, None), ("rf",)])
        fresh_b, _ = replay_fresh(spec, {}, [("sim", GRID_B, None), ("rfd",)])
        check(same_obs(observe(a), observe(fresh_a)), f"twins {kind}: a equals fresh")
        check(same_obs(observe(b), observe(fresh_b)), f"twins {kind}: b equals fresh")
        check(same(fa(PROBE), fresh_a.recovery_factor_interpolator()(PROBE)), f"twins {kind}: a interpolator")
        check(same(fb(PROBE), fresh_b.recovery_factor_interpolator()(PROBE)), f"twins {kind}: b interpolator")
        check(same(ra, a.recovery) and same(rbd, b.recovery), f"twins {kind}: recovery attributes")
        # copies diverge independently
        c = copy.copy(a)
        d = copy.deepcopy(a)
        e = pickle.loads(pickle.dumps(a))
        for name, obj in (("copy", c), ("deepcopy", d), ("pickle", e)):
            check(same_obs(observe(obj), observe(a)), f"{name} {kind}: starts equal to the original")
        c.simulate(GRID_C)
        c.recovery_factor(density=True)
        d.recovery_factor(density=True)
        e.simulate(GRID_B)
        check(same_obs(observe(a), observe(fresh_a)), f"copies {kind}: original untouched by its copies")
        check(same(a.recovery_factor_interpolator()(PROBE), fa(PROBE)), f"copies {kind}: original interpolator")
        fresh_c, _ = replay_fresh(spec, {}, [("sim", GRID_C, None), ("rfd",)])
        fresh_d, _ = replay_fresh(spec, {}, [("sim", GRID_A, None), ("rf",), ("rfd",)])
        fresh_e, _ = replay_fresh(spec, {}, [("sim", GRID_B, None)])
        check(same_obs(observe(c), observe(fresh_c)), f"copies {kind}: shallow copy equals fresh")
        check(same_obs(observe(d), observe(fresh_d)), f"copies {kind}: deep copy equals fresh")
        check(same_obs(observe(e), observe(fresh_e)), f"copies {kind}: unpickled equals fresh")
        for obj, fr in ((c, fresh_c), (d, fresh_d), (e, fresh_e)):
            check(
                same(obj.recovery_factor_interpolator()(PROBE), fr.recovery_factor_interpolator()(PROBE)),
                f"copies {kind}: interpolators equal fresh",
            )

    print("C10: the two-call example (old recovery must not meet the new time axis)")
    for kind in ("IdealReservoir", "SinglePhaseReservoir"):
        spec = Spec(kind, 30, 1000.0, 8000.0, FLUID_8000)
        r = spec.build()
        r.simulate(np.linspace(0, 10, 60))
        r.recovery_factor()
        r.recovery_factor(density=True)
        r.recovery_factor_interpolator()
        t2 = np.linspace(0, 0.05, 60)
        r.simulate(t2)
        f = r.recovery_factor_interpolator()
        g = spec.build()
        g.simulate(t2)
        check(same(f(t2), g.recovery_factor()), f"two-call {kind}: interpolator uses the new run")
        check(same(r.recovery, g.recovery), f"two-call {kind}: cached recovery is of the new run")

    print("C10: per-mode results and values that depend on current fields")
    spec = Spec("IdealReservoir", 15, 1000.0, 8000.0, FLUID_8000)
    r = spec.build()
    r.simulate(GRID_A)
    rate1, dens1 = r.recovery_factor(), r.recovery_factor(density=True)
    check(not same(rate1, dens1), "modes: the two modes differ")
    check(same(r.recovery_factor(), rate1) and same(r.recovery_factor(density=True), dens1), "modes: each repeats")
    check(same(r.recovery, dens1), "modes: attribute follows the latest call")
    check(same(r.recovery_factor_interpolator()(GRID_A), dens1), "modes: interpolator follows the latest call")
    r.pressure_fracface = 4000.0  # scaling read at call time
    g = Spec("IdealReservoir", 15, 4000.0, 8000.0, FLUID_8000).build()
    g.simulate(GRID_A)
    check(same(r.recovery_factor(), g.recovery_factor()), "fields: rate mode sees the new frac-face pressure")
    check(same(r.recovery_factor(density=True), g.recovery_factor(density=True)), "fields: density mode too")
    check(same(r.recovery_factor_interpolator()(PROBE), g.recovery_factor_interpolator()(PROBE)), "fields: interpolator")
    r.fluid = FLUID_5000  # other density table
    g.fluid = FLUID_5000
    g2 = Spec("IdealReservoir", 15, 4000.0, 8000.0, FLUID_5000).build()
    g2.simulate(GRID_A)
    check(same(r.recovery_factor(density=True), g2.recovery_factor(density=True)), "fields: density mode sees the new fluid")
    r.nx = 15
    check(same(r.recovery_factor(), g2.recovery_factor()), "fields: rate mode unchanged by re-assigning the same nx")

    print("C10: arrays handed out are the caller's; editing them changes nothing else")
    for kind in ("IdealReservoir", "SinglePhaseReservoir"):
        spec = Spec(kind, 10, 1200.0, 8000.0, FLUID_8000)
        r, g = spec.build(), spec.build()
        r.simulate(GRID_A)
        g.simulate(GRID_A)
        good, good_d = g.recovery_factor(), g.recovery_factor(density=True)
        for dens, ref in ((False, good), (True, good_d)):
            out = r.recovery_factor(density=dens)
            f1 = r.recovery_factor_interpolator()
            out[:] = -7.0
            f2 = r.recovery_factor_interpolator()
            check(same(f1(GRID_A), ref), f"alias {kind}: an interpolator keeps the values it was built from")
            check(np.all(f2(GRID_A) == -7.0), f"alias {kind}: the attribute is the returned array (as before)")
            check(same(r.recovery_factor(density=dens), ref), f"alias {kind}: next call is not affected by the edit")
            check(same(r.recovery_factor_interpolator()(GRID_A), ref), f"alias {kind}: nor the next interpolator")


def section_c17():
    print("C17: shifts, constant schedules, rejections, interpolator end values")
    for kind, nx, pf, pi, fluid in (
        ("IdealReservoir", 20, 1000.0, 8000.0, FLUID_8000),
        ("SinglePhaseReservoir", 20, 1000.0, 8000.0, FLUID_8000),
        ("SinglePhaseReservoir", 33, 4800.0, 5000.0, FLUID_5000),
    ):
        spec = Spec(kind, nx, pf, pi, fluid)
        for grid in (GRID_A, GRID_B, GRID_D):
            base = spec.build()
            base.simulate(grid)
            rf, rfd = base.recovery_factor(), base.recovery_factor(density=True)
            for shift in (-3.5, 0.125, 17.0, 1000.0):
                tol = 1e-12 * max(1.0, abs(shift)) / np.min(np.diff(grid))
                sh = spec.build()
                sh.simulate(grid + shift)
                check(close(sh.pseudopressure, base.pseudopressure, rtol=tol, atol=tol), f"shift {kind} {shift}: field")
                check(close(sh.recovery_factor(), rf, rtol=tol, atol=tol), f"shift {kind} {shift}: recovery")
                check(close(sh.recovery_factor(density=True), rfd, rtol=tol, atol=tol), f"shift {kind} {shift}: density recovery")
                f = sh.recovery_factor_interpolator()
                check(same(f(grid + shift), sh.recovery), f"shift {kind} {shift}: interpolator at the nodes")
                # the same object re-used for the shifted and the unshifted grid
                sh.simulate(grid)
                check(same(sh.pseudopressure, base.pseudopressure), f"shift {kind} {shift}: back on the original grid")
                check(same(sh.recovery_factor_interpolator()(grid), rf), f"shift {kind} {shift}: interpolator after re-use")
            # interpolator values
            for dens in (False, True):
                r = spec.build()
                r.simulate(grid)
                rec = r.recovery_factor(density=dens)
                f = r.recovery_factor_interpolator()
                check(same(f(grid), rec), f"interp {kind}: reproduces recovery at the simulated times")
                check(np.all(f(grid[0] - np.array([1e-9, 1.0, 1e6])) == 0.0), f"interp {kind}: 0 before the first time")
                check(np.all(f(grid[-1] + np.array([1e-9, 1.0, 1e6])) == rec[-1]), f"interp {kind}: final value after the last")
                mid = 0.5 * (grid[1:] + grid[:-1])
                check(close(f(mid), 0.5 * (rec[1:] + rec[:-1]), rtol=1e-12, atol=1e-14), f"interp {kind}: linear between")
            if kind != "IdealReservoir":
                const = spec.build()
                const.simulate(grid, np.full(len(grid), pf))
                check(same(const.pseudopressure, base.pseudopressure), f"const schedule {kind}: field identical")
                check(same(const.recovery_factor(), rf), f"const schedule {kind}: recovery identical")
                check(const.pressure_fracface == pf, f"const schedule {kind}: setting untouched")
                # a schedule applies to its run only
                sched = np.linspace(pf, 0.5 * pf, len(grid))
                const.simulate(grid, sched)
                check(not same(const.pseudopressure, base.pseudopressure), f"schedule {kind}: has an effect")
                check(backward_euler_residuals(const, sched) < 1e-9, f"schedule {kind}: backward Euler")
                const.simulate(grid)
                check(same(const.pseudopressure, base.pseudopressure), f"schedule {kind}: gone in the next run")
                for wrong in (0, 1, len(grid) - 1, len(grid) + 1, 3 * len(grid)):
                    for target in (spec.build(), const):
                        before = observe(target)
                        try:
                            target.simulate(grid, np.full(wrong, pf))
                        except ValueError:
                            pass
                        else:
                            check(False, f"wrong length {kind} {wrong}: accepted")
                        check(same_obs(observe(target), before), f"wrong length {kind} {wrong}: state unchanged")
        # nothing before a simulation
        r = spec.build()
        for call in (r.recovery_factor, lambda r=r: r.recovery_factor(density=True), r.recovery_factor_interpolator):
            try:
                call()
            except RuntimeError:
                pass
            except Exception as e:  # noqa: BLE001
                check(False, f"before simulate {kind}: {type(e).__name__} instead of RuntimeError")
            else:
                check(False, f"before simulate {kind}: no error")
        check(not hasattr(r, "time") and not hasattr(r, "pseudopressure") and not hasattr(r, "recovery"),
              f"before simulate {kind}: no results readable")
        # a first simulation that fails leaves an object without results
        if simulate_with_failing_solver(r, GRID_A, 3):
            try:
                r.recovery_factor()
            except RuntimeError:
                pass
            else:
                check(False, f"failed first run {kind}: recovery readable")
            check(not hasattr(r, "time") and not hasattr(r, "pseudopressure"), f"failed first run {kind}: no results")
        else:
            check(False, f"failed first run {kind}: failure not propagated")


def section_failures():
    print("failures part-way: diffusivity raising at step k, solver raising at step k")
    for kind in ("IdealReservoir", "SinglePhaseReservoir"):
        spec = Spec(kind, 14, 900.0, 8000.0, FLUID_8000)
        r = spec.build()
        r.simulate(GRID_A)
        r.recovery_factor(density=True)
        f_before = r.recovery_factor_interpolator()(PROBE)
        before = observe(r)
        snapshot = {k: np.array(v, copy=True) for k, v in before.items()}
        for k in (0, 1, 5, len(GRID_B) - 2):
            check(simulate_with_failing_solver(r, GRID_B, k), f"fail {kind} k={k}: propagated")
            now = observe(r)
            check(same_obs(now, snapshot), f"fail {kind} k={k}: values unchanged")
            check(all(now[n] is before[n] for n in now), f"fail {kind} k={k}: same objects")
            check(same(r.recovery_factor_interpolator()(PROBE), f_before), f"fail {kind} k={k}: interpolator unchanged")
        # diffusivity failing
        real_alpha = type(r).alpha_scaled
        calls = [0]

        def bad_alpha(self, m, real_alpha=real_alpha, calls=calls):
            calls[0] += 1
            if calls[0] == 7:
                msg = "injected"
                raise ValueError(msg)
            return real_alpha(self, m)

        cls = type(r)
        cls.alpha_scaled = bad_alpha
        try:
            try:
                r.simulate(GRID_D)
            except ValueError:
                pass
            else:
                check(False, f"fail alpha {kind}: not propagated")
        finally:
            cls.alpha_scaled = real_alpha
        check(same_obs(observe(r), snapshot), f"fail alpha {kind}: values unchanged")
        check(same(r.recovery_factor_interpolator()(PROBE), f_before), f"fail alpha {kind}: interpolator unchanged")
        # and the object still works
        r.simulate(GRID_C)
        g = spec.build()
        g.simulate(GRID_C)
        check(same_obs(observe(r), observe(g)), f"fail {kind}: next run equals fresh")
        check(same(r.recovery_factor_interpolator()(PROBE), g.recovery_factor_interpolator()(PROBE)), f"fail {kind}: next interpolator")


def section_object_model():
    print("object model: equality, repr, fields")
    a = work.IdealReservoir(10, 1000.0, 8000.0, FLUID_8000)
    b = work.IdealReservoir(10, 1000.0, 8000.0, FLUID_8000)
    c = work.IdealReservoir(11, 1000.0, 8000.0, FLUID_8000)
    s = work.SinglePhaseReservoir(10, 1000.0, 8000.0, FLUID_8000)
    check(a == b and not (a != b), "eq: twins are equal")
    check(a != c, "eq: other nx differs")
    check(a != s, "eq: other class differs")
    a.simulate(GRID_A)
    a.recovery_factor()
    check(a == b, "eq: results do not take part in equality")
    check(b.__dict__.get("time") is None and not hasattr(b, "time"), "eq: comparing did not couple the twins")
    check("nx=10" in repr(a) and "pressure_initial=8000.0" in repr(a), "repr shows the fields")
    try:
        hash(a)
    except TypeError:
        pass
    else:
        check(False, "reservoirs stay unhashable (mutable, compared by value)")
    t = work.TwoPhaseReservoir(10, 1000.0, 8000.0, FLUID_8000, 0.25)
    check(t.Sw_init == 0.25 and t.nx == 10, "TwoPhaseReservoir fields")
    m = work.MultiPhaseReservoir(10, 1000.0, 8000.0, FLUID_8000, 0.7, 0.1, 0.2)
    check((m.So_init, m.Sw_init, m.Sg_init) == (0.7, 0.1, 0.2), "MultiPhaseReservoir fields")
    try:
        m.simulate(GRID_A)
    except NotImplementedError:
        pass
    else:
        check(False, "MultiPhaseReservoir.simulate is not implemented")
    check(not hasattr(m, "time"), "MultiPhaseReservoir: nothing stored")


def section_settings_after_construction():
    print("settings assigned after construction are the ones a run and a recovery call use")
    for kind in ("IdealReservoir", "SinglePhaseReservoir"):
        r = getattr(work, kind)(8, 3000.0, 8000.0, FLUID_8000)
        r.simulate(GRID_A)
        r.recovery_factor()
        r.recovery_factor(density=True)
        r.recovery_factor_interpolator()
        r.nx = 17
        r.pressure_fracface = 700.0
        r.fluid = FLUID_5000
        r.pressure_initial = 5000.0
        g = getattr(work, kind)(17, 700.0, 5000.0, FLUID_5000)
        for grid in (GRID_B, GRID_C):
            r.simulate(grid)
            g.simulate(grid)
            check(same(r.pseudopressure, g.pseudopressure), f"reassigned {kind}: field equals fresh object")
            check(same(r.recovery_factor(density=True), g.recovery_factor(density=True)), f"reassigned {kind}: density recovery")
            check(same(r.recovery_factor(), g.recovery_factor()), f"reassigned {kind}: recovery")
            check(same(r.recovery_factor_interpolator()(PROBE), g.recovery_factor_interpolator()(PROBE)), f"reassigned {kind}: interpolator")
            check(backward_euler_residuals(r) < 1e-9, f"reassigned {kind}: backward Euler with the new settings")
        if kind == "SinglePhaseReservoir":
            u0 = r.pseudopressure[0]
            check(u0[0] == float(FLUID_5000.m_scaled_func(700.0)) and np.all(u0[1:] == float(FLUID_5000.m_i)),
                  "reassigned: frac-face and initial pseudopressure come from the current fluid and pressure")

    print("a shallow copy keeps its results when the original moves on (and the reverse)")
    for kind in ("IdealReservoir", "SinglePhaseReservoir"):
        spec = Spec(kind, 10, 1200.0, 8000.0, FLUID_8000)
        a = spec.build()
        a.simulate(GRID_A)
        a.recovery_factor()
        c = copy.copy(a)
        a.simulate(GRID_B)
        a.recovery_factor(density=True)
        old, _ = replay_fresh(spec, {}, [("sim", GRID_A, None), ("rf",)])
        new, _ = replay_fresh(spec, {}, [("sim", GRID_B, None), ("rfd",)])
        check(same_obs(observe(c), observe(old)), f"shallow {kind}: copy still shows the old run")
        check(same_obs(observe(a), observe(new)), f"shallow {kind}: original shows the new run")
        check(same(c.recovery_factor(density=True), old.recovery_factor(density=True)), f"shallow {kind}: copy, density mode")
        check(same(c.recovery_factor(), old.recovery_factor()), f"shallow {kind}: copy, rate mode")
        check(same(a.recovery_factor(), new.recovery_factor()), f"shallow {kind}: original, rate mode")
        check(same(a.recovery_factor_interpolator()(PROBE), new.recovery_factor_interpolator()(PROBE)), f"shallow {kind}: interpolators")
        check(same(c.recovery_factor_interpolator()(PROBE), old.recovery_factor_interpolator()(PROBE)), f"shallow {kind}: interpolators")
        c.pressure_fracface = 5000.0
        old.pressure_fracface = 5000.0
        check(same(c.recovery_factor(), old.recovery_factor()), f"shallow {kind}: copy with its own setting")
        check(same(a.recovery_factor(), new.recovery_factor()), f"shallow {kind}: original not affected by the copy's setting")


def section_representations():
    print("representations of the time grid and of the schedule (arrays, views, lists, Series, dtypes)")
    base = GRID_B
    ints = np.arange(0, 24, dtype=np.int64)
    reps = {
        "float64": base,
        "copy": base.copy(),
        "view": np.concatenate([base, base])[: len(base)],
        "strided": np.repeat(base, 2)[::2],
        "fortran": np.asfortranarray(np.stack([base, base], 1))[:, 0],
        "list": list(base),
        "tuple": tuple(base),
        "series": pd.Series(base),
        "float32": base.astype(np.float32),
        "int": ints,
        "readonly": base.copy(),
    }
    reps["readonly"].flags.writeable = False
    sched = np.linspace(3000.0, 800.0, len(base))
    sched_reps = {"none": None, "array": sched, "list": list(sched), "series": pd.Series(sched), "const": np.full(len(base), 1000.0)}
    for kind in ("IdealReservoir", "SinglePhaseReservoir"):
        spec = Spec(kind, 9, 1000.0, 8000.0, FLUID_8000)
        shared = spec.build()  # one object taken through every representation in turn
        for rname, t in reps.items():
            if kind == "IdealReservoir" and rname in ("list", "tuple"):
                # the ideal reservoir asks for time.shape: lists are rejected, state kept
                before = observe(shared)
                try:
                    shared.simulate(t)
                except AttributeError:
                    pass
                else:
                    check(False, f"rep {kind} {rname}: accepted (was rejected before)")
                check(same_obs(observe(shared), before), f"rep {kind} {rname}: rejected grid left state unchanged")
                continue
            for sname, sc in sched_reps.items() if kind != "IdealReservoir" else (("none", None),):
                tag = f"rep {kind} time={rname} schedule={sname}"
                ev_sim = ("sim", t, sc)
                tail = [ev_sim, ("rft",), ("interp",), ("rfd",), ("interp",), ("rf",)]
                got = [apply_event(shared, ev) for ev in tail]
                fresh, want = replay_fresh(spec, {}, tail)
                check(same_obs(observe(shared), observe(fresh)), f"{tag}: state equals fresh")
                check(all(same(g, w) for g, w in zip(got[1:], want[1:])), f"{tag}: values equal fresh")
                check(shared.time is t, f"{tag}: the grid object itself is stored")
                if HEAD is not None:
                    ref, ref_vals = replay_fresh(spec, {}, tail, HEAD)
                    check(same_obs(observe(shared), observe(ref)), f"{tag}: state equals HEAD")
                    check(all(same(g, w) for g, w in zip(got[1:], ref_vals[1:])), f"{tag}: values equal HEAD")
                if rname not in ("float32", "int"):
                    canon = spec.build()
                    apply_event(canon, ("sim", base, None if sc is None else np.asarray(sc, float)))
                    check(close(shared.pseudopressure, canon.pseudopressure, rtol=1e-12, atol=1e-13), f"{tag}: same field as with plain arrays")
                    check(close(shared.recovery, canon.recovery_factor(), rtol=1e-11, atol=1e-13), f"{tag}: same recovery as with plain arrays")


def count_calls(module, name, fn):
    """Run fn() and count the calls of module.name made meanwhile."""
    real = getattr(module, name)
    calls = [0]

    def counting(*args, **kwargs):
        calls[0] += 1
        return real(*args, **kwargs)

    setattr(module, name, counting)
    try:
        fn()
    finally:
        setattr(module, name, real)
    return calls[0]


def section_patch_specific():
    """Checks of behaviour the clean tree does not have; each is skipped when absent."""
    from scipy import integrate, interpolate

    memoising = hasattr(work, "SimulationResults") or hasattr(work.IdealReservoir, "_recovery_memo")
    if memoising:
        print("patch: recovery is memoised per mode, per object, per run")
        r = work.SinglePhaseReservoir(12, 1000.0, 8000.0, FLUID_8000)
        r.simulate(GRID_A)
        n_first = count_calls(integrate, "cumulative_trapezoid", r.recovery_factor)
        n_again = count_calls(integrate, "cumulative_trapezoid", r.recovery_factor)
        check((n_first, n_again) == (1, 0), f"memo: rate mode computed once ({n_first}, {n_again})")
        d_first = count_calls(interpolate, "interp1d", lambda: r.recovery_factor(density=True))
        d_again = count_calls(interpolate, "interp1d", lambda: r.recovery_factor(density=True))
        check((d_first, d_again) == (1, 0), f"memo: density mode computed once ({d_first}, {d_again})")
        n_mixed = count_calls(integrate, "cumulative_trapezoid", r.recovery_factor)
        check(n_mixed == 0, "memo: the modes do not evict each other")
        twin = work.SinglePhaseReservoir(12, 1000.0, 8000.0, FLUID_8000)
        twin.simulate(GRID_A)
        check(count_calls(integrate, "cumulative_trapezoid", twin.recovery_factor) == 1, "memo: an equal twin computes for itself")
        r.simulate(GRID_A)  # the very same grid again: still a new run
        check(count_calls(integrate, "cumulative_trapezoid", r.recovery_factor) == 1, "memo: emptied by simulate")
        r.simulate(GRID_A, np.full(len(GRID_A), 1000.0))
        check(count_calls(integrate, "cumulative_trapezoid", r.recovery_factor) == 1, "memo: emptied by simulate with a schedule")
        t = work.TwoPhaseReservoir(12, 1000.0, 8000.0, FLUID_8000)
        t.simulate(GRID_A)
        t.recovery_factor()
        t.simulate(GRID_B)
        check(count_calls(integrate, "cumulative_trapezoid", t.recovery_factor) == 1, "memo: emptied by the subclass simulate")
        simulate_with_failing_solver(r, GRID_B, 4)
        check(count_calls(integrate, "cumulative_trapezoid", r.recovery_factor) == 0, "memo: kept by a failed simulate (results kept too)")
        i = work.IdealReservoir(12, 1000.0, 8000.0, FLUID_8000)
        i.simulate(GRID_A)
        first = i.recovery_factor()
        i.pressure_fracface = 2000.0
        second = i.recovery_factor()
        check(close(second * (1 - 1000.0 / 8000.0), first * (1 - 2000.0 / 8000.0), rtol=1e-14), "memo: scaling read at call time")
        i.nx = 13  # absurd for stored results, but h_inv is read at call time like before
        third = i.recovery_factor()
        check(close(third * 11.0, second * 12.0, rtol=1e-14), "memo: node count read at call time")

    if hasattr(work, "_same_setting"):
        print("patch: equality by value, validation, guarded attributes, derived quantities")
        sched = np.linspace(3000.0, 500.0, 7)
        a = work.SinglePhaseReservoir(10, sched, 8000.0, FLUID_8000)
        b = work.SinglePhaseReservoir(10, sched.copy(), 8000.0, FLUID_8000)
        c = work.SinglePhaseReservoir(10, sched[::-1].copy(), 8000.0, FLUID_8000)
        d = work.SinglePhaseReservoir(10, sched[:-1].copy(), 8000.0, FLUID_8000)
        e = work.SinglePhaseReservoir(10, sched.copy(), 8000.0, FLUID_5000)
        check(a == b and not (a != b), "eq: equal schedules")
        check(a != c and a != d and a != e, "eq: other schedule values, length, fluid")
        check((a == 3) is False and a != None, "eq: other types")  # noqa: E711
        t1 = work.TwoPhaseReservoir(10, 1000.0, 8000.0, FLUID_8000, 0.2)
        t2 = work.TwoPhaseReservoir(10, 1000.0, 8000.0, FLUID_8000, 0.3)
        t3 = work.TwoPhaseReservoir(10, 1000.0, 8000.0, FLUID_8000, 0.2)
        check(t1 != t2 and t1 == t3, "eq: subclass fields take part")
        check(t1 != work.SinglePhaseReservoir(10, 1000.0, 8000.0, FLUID_8000), "eq: classes are distinguished")
        for cls in (work.TwoPhaseReservoir, work.MultiPhaseReservoir):
            try:
                hash(cls(10, 1000.0, 8000.0, FLUID_8000))
            except TypeError:
                pass
            else:
                check(False, f"{cls.__name__} became hashable")
        a.simulate(np.linspace(0, 1, 7), sched)
        check(a == b and not hasattr(b, "time"), "eq: equal reservoirs share no results")
        for bad, err in (((30.5, 1000.0, 8000.0), TypeError), (("30", 1000.0, 8000.0), TypeError),
                         ((1, 1000.0, 8000.0), ValueError), ((0, 1000.0, 8000.0), ValueError),
                         ((30, float("nan"), 8000.0), ValueError), ((30, 1000.0, float("nan")), ValueError),
                         ((30, "high", 8000.0), TypeError), ((30, "1000", 8000.0), TypeError), ((30, np.array([1.0, np.nan]), 8000.0), ValueError)):
            for cls in (work.IdealReservoir, work.SinglePhaseReservoir):
                try:
                    cls(*bad, FLUID_8000)
                except err:
                    pass
                else:
                    check(False, f"validation: {cls.__name__}{bad} accepted")
        try:
            work.TwoPhaseReservoir(10, 1000.0, 8000.0, FLUID_8000, 1.5)
        except ValueError:
            pass
        else:
            check(False, "validation: saturation 1.5 accepted")
        ok = work.IdealReservoir(np.int64(30), np.float32(1000.0), 8000, None)
        check(ok.nx == 30 and type(ok.nx) is np.int64, "validation: keeps the value as given (no conversion)")
        r = work.SinglePhaseReservoir(10, 1000.0, 8000.0, FLUID_8000)
        r.simulate(GRID_A)
        keep = observe(r)
        for name, value, err in (("nx", 2.5, TypeError), ("nx", 1, ValueError), ("pressure_fracface", float("nan"), ValueError)):
            try:
                setattr(r, name, value)
            except err:
                pass
            else:
                check(False, f"guard: {name}={value!r} accepted")
        check(r.nx == 10 and r.pressure_fracface == 1000.0, "guard: a rejected assignment changes nothing")
        check(same_obs(observe(r), keep), "guard: results untouched by rejected assignments")
        check(r.dx_squared == (1 / 10) ** 2, "derived: dx_squared (single phase)")
        check(work.IdealReservoir(10, 1.0, 2.0).dx_squared == (np.linspace(0, 1, 10)[1]) ** 2, "derived: dx_squared (ideal)")
        r.nx = 20
        check(r.dx_squared == (1 / 20) ** 2, "derived: dx_squared follows nx")
        check(r.initial_pseudopressure is FLUID_8000.m_i, "derived: initial pseudopressure is the fluid's")
        r.fluid = FLUID_5000
        check(r.initial_pseudopressure is FLUID_5000.m_i, "derived: follows the fluid")
        r.pressure_fracface = 1234.0
        check(same(r.fracface_pseudopressure(), FLUID_5000.m_scaled_func(1234.0)), "derived: frac-face pseudopressure follows fluid and pressure")
        check("dx_squared" not in vars(r) and "initial_pseudopressure" not in vars(r), "derived: nothing derived is stored")
        # results assigned by hand drop what was derived from the old ones
        r = work.IdealReservoir(10, 1000.0, 8000.0, FLUID_8000)
        r.simulate(GRID_A)
        r.recovery_factor()
        r.time = GRID_A + 1.0
        check(not hasattr(r, "recovery"), "guard: assigning time drops the cached recovery")

    if hasattr(work, "SimulationResults"):
        print("patch: results record")
        r = work.IdealReservoir(10, 1000.0, 8000.0, FLUID_8000)
        check(r._results is None, "record: none before simulate")
        r.simulate(GRID_A)
        rec = r._results
        check(rec.time is GRID_A and rec.pseudopressure is r.pseudopressure, "record: holds the results")
        r.recovery_factor()
        f1 = r.recovery_factor_interpolator()
        check(r.recovery_factor_interpolator() is f1, "record: interpolator memoised while nothing changed")
        r.recovery_factor(density=True)
        f2 = r.recovery_factor_interpolator()
        check(f2 is not f1 and same(f2(GRID_A), r.recovery), "record: a new interpolator for new recovery values")
        simulate_with_failing_solver(r, GRID_B, 2)
        check(r._results is rec, "record: kept by a failed simulate")
        r.simulate(GRID_A)
        check(r._results is not rec and not hasattr(r, "recovery"), "record: replaced by simulate")
        check(r.recovery_factor_interpolator() is not f2, "record: the interpolator memo went with the old record")
        try:
            del r.recovery
            del r.recovery
        except AttributeError:
            pass
        else:
            check(False, "record: deleting a missing recovery must raise AttributeError")
        r.time = GRID_A + 2.0
        check(r.time[0] == 2.0 and not hasattr(r, "recovery"), "record: results assigned by hand start a new record")


def main():
    section_c04()
    print(f"   largest backward-Euler residual relative to the right-hand side: {WORST[0]:.2e}")
    print(f"   largest residual relative to |A||u|+|b| (rounding units): {WORST_BACKWARD[0]:.2e}")
    section_c10()
    section_c17()
    section_failures()
    section_object_model()
    section_settings_after_construction()
    section_representations()
    section_patch_specific()
    print(f"{COUNT[0]} checks, {len(FAILURES)} failures", "(with HEAD reference)" if HEAD else "(no HEAD reference)")
    return 1 if FAILURES else 0


if __name__ == "__main__":
    sys.exit(main())
