"""Self-check for changes to how bluebonnet.flow.reservoir takes in and keeps arguments.

Run with   PYTHONPATH=<worktree>/src  python selfcheck.py
Exits 0 when every check holds.  It is written against *behaviour* only, so it has to
pass on the unmodified library as well as on the modified one:

 * every stored level is the backward-Euler update of the previous one (checked with
   an independently assembled dense matrix: residual and an independent dense solve);
 * after any history of calls on one object, everything readable equals what a fresh
   object gives after the latest successful simulate and the calls made after it
   (bit for bit), for single objects and for interleaved twin objects sharing the
   fluid and the argument arrays;
 * failures (wrong-length schedule, exception part-way through a run, recovery before
   simulate) raise and leave nothing wrong readable;
 * time-shift invariance, constant schedule == scalar setting, interpolator contract;
 * argument representations (list, tuple, Series, integer arrays, strided / read-only
   views): whenever one is accepted the results are those of the float64 array;
 * the caller's arrays are never modified or frozen by the library; what the caller
   does to arguments / returned arrays afterwards never produces an inconsistent
   reservoir;
 * recovery_factor(time=X): the return value is either recovery on the simulated grid
   or recovery sampled at X (linear, 0 before the first time, final value after the
   last), and in either case the cache and the interpolator stay on the simulated grid.
"""

from __future__ import annotations

import copy
import os
import random
import sys
import warnings

import numpy as np
import pandas as pd

import bluebonnet
from bluebonnet.flow import FlowProperties, IdealReservoir, SinglePhaseReservoir

warnings.simplefilter("ignore")

DATA = os.path.join(
    os.path.dirname(os.path.dirname(os.path.dirname(os.path.abspath(bluebonnet.__file__)))),
    "tests",
    "data",
)
RENAME = {
    "P": "pressure",
    "Z-Factor": "z-factor",
    "Cg": "compressibility",
    "Viscosity": "viscosity",
    "Density": "density",
}
PVT = pd.read_csv(os.path.join(DATA, "pvt_gas.csv")).rename(columns=RENAME)
P_I = 8000.0
P_F = 1000.0
FLUID = FlowProperties(PVT, P_I)
FLUID2 = FlowProperties(PVT, 6000.0)

N_CHECKS = 0
NOTES: list[str] = []


def ok(cond, what):
    global N_CHECKS
    N_CHECKS += 1
    if not cond:
        print("FAILED:", what)
        raise SystemExit(1)


def same(a, b):
    """Bit-for-bit equality of two array-likes (shape and values)."""
    a, b = np.asarray(a), np.asarray(b)
    return a.shape == b.shape and np.array_equal(a, b)


# ----------------------------------------------------------------------------------
# failure injection: a reservoir whose diffusivity call can be told to blow up
# ----------------------------------------------------------------------------------
class Boom(Exception):
    pass


class _Flaky:
    def arm(self, countdown, exc):
        self.__dict__["_countdown"] = countdown
        self.__dict__["_exc"] = exc

    def disarm(self):
        self.__dict__["_countdown"] = None

    def alpha_scaled(self, pseudopressure):
        c = self.__dict__.get("_countdown")
        if c is not None:
            if c <= 0:
                self.__dict__["_countdown"] = None
                raise self.__dict__["_exc"]
            self.__dict__["_countdown"] = c - 1
        return super().alpha_scaled(pseudopressure)


class FlakyIdeal(_Flaky, IdealReservoir):
    pass


class FlakySingle(_Flaky, SinglePhaseReservoir):
    pass


def make(kind, nx=17, fluid=FLUID, pf=P_F, pi=P_I):
    cls = FlakyIdeal if kind == "ideal" else FlakySingle
    return cls(nx, pf, pi, fluid)


# ----------------------------------------------------------------------------------
# grids and schedules
# ----------------------------------------------------------------------------------
def grid(n, t_end, seed, start=0.0):
    rng = np.random.default_rng(seed)
    base = np.linspace(0, np.sqrt(t_end), n) ** 2
    jitter = np.concatenate([[0.0], np.cumsum(rng.uniform(0.2, 1.8, n - 1))])
    jitter *= t_end / jitter[-1]
    return start + 0.5 * (base + jitter)


GRIDS = {
    "A": grid(25, 2.0, 1),
    "B": grid(25, 5.0, 2, start=0.3),
    "C": grid(13, 0.7, 3),
}


def schedule(n, seed):
    rng = np.random.default_rng(100 + seed)
    s = np.full(n, P_F)
    s[n // 3 :] = 600.0
    s[2 * n // 3 :] = 2500.0
    return s + rng.uniform(0, 50, n)


SCHEDS = {k: schedule(len(g), i) for i, (k, g) in enumerate(GRIDS.items())}
CONST = {k: np.full(len(g), P_F) for k, g in GRIDS.items()}


# ----------------------------------------------------------------------------------
# independent backward Euler
# ----------------------------------------------------------------------------------
def dense_step_matrix(k):
    n = len(k)
    a = np.zeros((n, n))
    for j in range(n):
        a[j, j] = 1.0 + 2.0 * k[j]
        if j >= 1:
            a[j, j - 1] = -k[j]
        if j <= n - 2:
            a[j, j + 1] = -k[j]
    a[n - 1, n - 1] = 1.0 + k[n - 1]  # no-flow outer node
    return a


def check_backward_euler(res, kind, sched=None, label=""):
    t = np.asarray(res.time, dtype=float)
    pp = np.asarray(res.pseudopressure, dtype=float)
    nx = res.nx
    ok(pp.shape == (len(t), nx), f"{label}: field shape")
    ok(np.all(np.isfinite(pp)), f"{label}: finite field")
    if kind == "ideal":
        dx2 = (1.0 / (nx - 1)) ** 2
        ok(np.all(pp[0] == 1.0), f"{label}: initial level")
    else:
        dx2 = (1.0 / nx) ** 2
        fl = res.fluid
        m_i = float(fl.m_i)
        if sched is None:
            sched = np.full(len(t), res.pressure_fracface)
        m_f = np.asarray(fl.m_scaled_func(np.asarray(sched, dtype=float)), dtype=float)
        first = np.full(nx, m_i)
        first[0] = m_f[0]
        ok(same(pp[0], first), f"{label}: initial level")
        a_ref = float(fl.alpha(m_i))
    worst = 0.0
    for i in range(len(t) - 1):
        r = (t[i + 1] - t[i]) / dx2
        if kind == "ideal":
            b = pp[i].copy()
            alpha = np.ones(nx)
        else:
            b = np.minimum(pp[i], m_i)
            b[0] = m_f[i] + (float(fl.alpha(m_f[i])) / a_ref) * m_f[i] * r
            alpha = np.asarray(fl.alpha(b)) / a_ref
        a = dense_step_matrix(r * alpha)
        u = pp[i + 1]
        resid = np.max(np.abs(a @ u - b))
        scale = np.max(np.abs(b))
        worst = max(worst, resid / scale)
        ok(resid <= 1e-12 * scale * nx, f"{label}: step {i} residual {resid:.3e} vs rhs {scale:.3e}")
        u_ref = np.linalg.solve(a, b)
        ok(
            np.max(np.abs(u_ref - u)) <= 1e-10 * np.max(np.abs(u_ref)),
            f"{label}: step {i} differs from independent dense solve",
        )
    return worst


# ----------------------------------------------------------------------------------
# observation of everything readable, without disturbing the object
# ----------------------------------------------------------------------------------
PROBE = np.concatenate([[-5.0, -1e-9], np.linspace(0, 6, 41), [1e3]])


def outcome(fn):
    try:
        return ("ok", fn())
    except Exception as e:  # noqa: BLE001
        return ("raised", type(e).__name__)


def equal_outcome(a, b):
    if a[0] != b[0]:
        return False
    if a[0] == "raised":
        return a[1] == b[1]
    return same(a[1], b[1])


def snapshot(res):
    d = res.__dict__
    snap = {
        "time": None if "time" not in d else np.array(d["time"], dtype=float),
        "pp": None if "pseudopressure" not in d else np.array(d["pseudopressure"]),
        "rec": None if "recovery" not in d else np.array(d["recovery"]),
    }
    clone = copy.copy(res)  # shares arrays, has its own attribute dict
    clone.__dict__["_countdown"] = None
    snap["interp"] = outcome(lambda: clone.recovery_factor_interpolator()(PROBE))
    clone2 = copy.copy(res)
    clone2.__dict__["_countdown"] = None
    snap["rf"] = outcome(lambda: np.array(clone2.recovery_factor()))
    return snap


def equal_snapshot(a, b, interp_tol=0.0):
    for key in ("time", "pp", "rec"):
        if (a[key] is None) != (b[key] is None):
            return False
        if a[key] is not None and not same(a[key], b[key]):
            return False
    if not equal_outcome(a["rf"], b["rf"]):
        return False
    if interp_tol and a["interp"][0] == b["interp"][0] == "ok":
        # scipy's interp1d does its arithmetic in the dtype of the stored abscissa, so
        # a narrow integer time axis may differ in the last bit between the knots
        return float(np.max(np.abs(a["interp"][1] - b["interp"][1]))) <= interp_tol
    return equal_outcome(a["interp"], b["interp"])


# ----------------------------------------------------------------------------------
# operations
# ----------------------------------------------------------------------------------
def apply(res, kind, op):
    """Run one operation; returns (category, outcome). category: sim / read / fail."""
    name = op[0]
    if name == "sim":
        _, g, s = op
        if kind == "ideal" or s is None:
            out = outcome(lambda: res.simulate(GRIDS[g]))
        else:
            arr = {"sched": SCHEDS, "const": CONST}[s][g]
            out = outcome(lambda: res.simulate(GRIDS[g], arr))
        ok(out[0] == "ok", f"simulate {op} raised {out[1]}")
        return "sim", ("ok", None)
    if name == "rf":
        return "read", outcome(lambda: np.array(res.recovery_factor()))
    if name == "rfd":
        return "read", outcome(lambda: np.array(res.recovery_factor(density=True)))
    if name == "rft":  # explicit time == the simulated grid (what the interpolator passes)
        def call():
            return np.array(res.recovery_factor(res.time, density=op[1]))
        return "read", outcome(call)
    if name == "rfx":  # explicit times that are not the simulated grid
        return "read", outcome(lambda: np.array(res.recovery_factor(XREQ[op[1]], density=op[2])))
    if name == "interp":
        return "read", outcome(lambda: res.recovery_factor_interpolator()(PROBE))
    if name == "badsched":
        _, g, delta = op
        if kind == "ideal":
            return "noop", ("ok", None)
        n = len(GRIDS[g]) + delta
        out = outcome(lambda: res.simulate(GRIDS[g], np.full(n, P_F)))
        ok(out == ("raised", "ValueError"), f"wrong-length schedule ({n}) gave {out}")
        return "fail", out
    if name == "boom":
        _, g, k, exc = op
        res.arm(k, exc)
        out = outcome(lambda: res.simulate(GRIDS[g]))
        res.disarm()
        ok(out[0] == "raised", f"injected failure {op} was swallowed")
        return "fail", out
    raise AssertionError(op)


def sched_of(kind, op):
    if kind == "ideal" or op[2] is None:
        return None
    return {"sched": SCHEDS, "const": CONST}[op[2]][op[1]]


def random_op(rng, kind):
    r = rng.random()
    g = rng.choice("ABC")
    if r < 0.30:
        s = None if kind == "ideal" else rng.choice([None, None, "sched", "const"])
        return ("sim", g, s)
    if r < 0.45:
        return ("rf",)
    if r < 0.58:
        return ("rfd",)
    if r < 0.64:
        return ("rft", rng.random() < 0.5)
    if r < 0.72:
        return ("rfx", rng.choice(sorted(XREQ)), rng.random() < 0.5)
    if r < 0.82:
        return ("interp",)
    if r < 0.90:
        return ("badsched", g, rng.choice([-1, 1, -len(GRIDS[g]), len(GRIDS[g]), 7]))
    calls = (len(GRIDS[g]) - 1) * (1 if kind == "ideal" else 2)  # diffusivity calls per run
    k = rng.randrange(0, calls)
    exc = rng.choice([ValueError("injected"), Boom("injected"), FloatingPointError("injected")])
    return ("boom", g, k, exc)


def run_histories(kind, n_hist, length, seed, n_objects=1):
    rng = random.Random(seed)
    for h in range(n_hist):
        objs = [make(kind) for _ in range(n_objects)]  # twins: equal arguments, shared fluid
        since = [[] for _ in objs]
        for step in range(length):
            j = rng.randrange(n_objects)
            res = objs[j]
            op = random_op(rng, kind)
            before = snapshot(res)
            cat, out = apply(res, kind, op)
            after = snapshot(res)
            label = f"{kind} history {h} step {step} obj {j} op {op[:3]}"
            if cat in ("fail", "noop"):
                ok(equal_snapshot(before, after), f"{label}: failed call changed what is readable")
            elif cat == "sim":
                since[j] = [op]
                check_backward_euler(res, kind, sched_of(kind, op), label)
            else:
                since[j].append(op)
            # replay on a fresh object: latest successful simulate + reads after it
            fresh = make(kind)
            last = None
            for o in since[j]:
                last = apply(fresh, kind, o)
            ok(equal_snapshot(after, snapshot(fresh)), f"{label}: differs from fresh replay")
            if cat == "read":
                ok(equal_outcome(out, last[1]), f"{label}: return value differs from fresh replay")
                # repeating the call gives the same again
                ok(equal_outcome(out, apply(res, kind, op)[1]), f"{label}: repeat differs")
                ok(equal_snapshot(after, snapshot(res)), f"{label}: repeat changed state")
            # the shared argument arrays are never touched
        for k_, g in GRIDS.items():
            ok(g.flags.writeable and same(g, GRIDS_COPY[k_]), "library modified a caller's time array")
            ok(SCHEDS[k_].flags.writeable and same(SCHEDS[k_], SCHEDS_COPY[k_]), "schedule modified")


XREQ = {
    "other": GRIDS["B"][::2].copy(),
    "wide": np.linspace(-1.0, 7.0, 33),
    "list": [0.1, 0.4, 0.2, 100.0],
    "samelen": GRIDS["A"] * 0.9 + 0.01,
}
GRIDS_COPY = {k: v.copy() for k, v in GRIDS.items()}
SCHEDS_COPY = {k: v.copy() for k, v in SCHEDS.items()}


# ----------------------------------------------------------------------------------
# sections
# ----------------------------------------------------------------------------------
def section_backward_euler():
    worst = 0.0
    for kind in ("ideal", "single"):
        for nx in (3, 4, 9, 40):
            for fluid, pi in ((FLUID, P_I), (FLUID2, 6000.0)):
                for pf in (50.0, 0.97 * pi):
                    t = grid(15, 3.0, nx) + 0.25
                    res = make(kind, nx=nx, fluid=fluid, pf=pf, pi=pi)
                    res.simulate(t)
                    w = check_backward_euler(res, kind, None, f"BE {kind} nx={nx} pf={pf}")
                    worst = max(worst, w)
                    if kind == "single":
                        s = np.linspace(pf, 0.5 * pf + 10, len(t))
                        res.simulate(t, s)
                        w = check_backward_euler(res, kind, s, f"BE sched nx={nx} pf={pf}")
                        worst = max(worst, w)
    NOTES.append(f"worst relative step residual {worst:.2e}")


def section_errors_before_simulate():
    for kind in ("ideal", "single"):
        res = make(kind)
        ok(outcome(res.recovery_factor) == ("raised", "RuntimeError"), "rf before simulate")
        ok(outcome(lambda: res.recovery_factor(density=True)) == ("raised", "RuntimeError"), "rfd before")
        ok(outcome(res.recovery_factor_interpolator) == ("raised", "RuntimeError"), "interp before")
        ok(outcome(lambda: res.recovery_factor(GRIDS["A"]))[0] == "raised", "rf(time) before simulate")
        ok(outcome(lambda: res.recovery_factor(GRIDS["A"], density=True))[0] == "raised", "rfd(time) before")
        for attr in ("time", "pseudopressure", "recovery"):
            ok(attr not in res.__dict__, f"{attr} appeared without a simulation")
        # a run that dies part-way on a fresh object leaves it as before simulate
        for k in (0, 1, 5, 11):
            res.arm(k, Boom("x"))
            ok(outcome(lambda: res.simulate(GRIDS["A"]))[0] == "raised", "injected failure swallowed")
            res.disarm()
            ok(outcome(res.recovery_factor) == ("raised", "RuntimeError"), "rf after failed first run")
            ok(outcome(res.recovery_factor_interpolator) == ("raised", "RuntimeError"), "interp after failed run")
        if kind == "single":
            for n in (0, 1, 24, 26, 50):
                for conv in (np.asarray, list):
                    out = outcome(lambda: res.simulate(GRIDS["A"], conv(np.full(n, P_F))))
                    ok(out == ("raised", "ValueError"), f"schedule length {n}: {out}")
            ok(outcome(res.recovery_factor) == ("raised", "RuntimeError"), "rf after rejected schedule")
        res.simulate(GRIDS["A"])
        fresh = make(kind)
        fresh.simulate(GRIDS["A"])
        ok(equal_snapshot(snapshot(res), snapshot(fresh)), "run after failures differs from fresh")


def section_shift_and_schedule_forms():
    for kind in ("ideal", "single"):
        # dyadic grid and dyadic shift: all time differences are exact, so is the result
        rng = np.random.default_rng(7)
        t = np.concatenate([[0.0], np.cumsum(rng.integers(1, 40, 30) / 1024.0)])
        base = make(kind)
        base.simulate(t)
        rf0, rfd0 = np.array(base.recovery_factor()), np.array(base.recovery_factor(density=True))
        for s in (64.0, -32.0, 0.5):
            res = make(kind)
            res.simulate(t + s)
            ok(same(res.pseudopressure, base.pseudopressure), f"{kind}: exact shift {s} changed the field")
            ok(same(res.recovery_factor(), rf0), f"{kind}: exact shift {s} changed recovery")
            ok(same(res.recovery_factor(density=True), rfd0), f"{kind}: exact shift {s} changed density rf")
        # general grid, general shift: rounding of the shifted times only
        t = GRIDS["B"]
        base.simulate(t)
        rf0 = np.array(base.recovery_factor())
        for s in (-3.7, 1e3, 12345.678, -0.3):
            ts = t + s
            delta = 4 * np.finfo(float).eps * np.max(np.abs(ts)) / np.min(np.diff(t))
            tol = 1e-13 + 20 * len(t) * delta
            res = make(kind)
            res.simulate(ts)
            err = np.max(np.abs(res.pseudopressure - base.pseudopressure))
            ok(err <= tol, f"{kind}: shift {s} moved the field by {err:.2e} (tol {tol:.2e})")
            err = np.max(np.abs(np.array(res.recovery_factor()) - rf0))
            ok(err <= tol, f"{kind}: shift {s} moved recovery by {err:.2e}")
            check_backward_euler(res, kind, None, f"shifted {kind} {s}")
    # constant schedule is exactly the scalar setting, in every representation accepted
    for g in "ABC":
        a, b = make("single"), make("single")
        a.simulate(GRIDS[g])
        b.simulate(GRIDS[g], CONST[g])
        ok(equal_snapshot(snapshot(a), snapshot(b)), "constant schedule != scalar setting")
        ok(b.pressure_fracface == P_F, "schedule leaked into the constructor setting")
        c = make("single")
        out = outcome(lambda: c.simulate(GRIDS[g], [P_F] * len(GRIDS[g])))
        if out[0] == "ok":
            ok(equal_snapshot(snapshot(a), snapshot(c)), "constant list schedule != scalar setting")
        # a schedule applies to that run only
        b.simulate(GRIDS[g], SCHEDS[g])
        b.simulate(GRIDS[g])
        ok(equal_snapshot(snapshot(a), snapshot(b)), "earlier schedule leaked into a later run")


def section_interpolator_contract():
    for kind in ("ideal", "single"):
        for g in "ABC":
            for density in (False, True):
                res = make(kind)
                sched = SCHEDS[g] if kind == "single" else None
                if sched is None:
                    res.simulate(GRIDS[g])
                else:
                    res.simulate(GRIDS[g], sched)
                rf = np.array(res.recovery_factor(density=density))
                f = res.recovery_factor_interpolator()
                t = np.asarray(res.time, dtype=float)
                ok(np.max(np.abs(f(t) - rf)) <= 1e-13 * max(1.0, np.max(np.abs(rf))), "interp at nodes")
                ok(np.all(f(np.array([t[0] - 1.0, t[0] - 1e-9, -1e9])) == 0.0), "interp before first time")
                ok(np.all(f(np.array([t[-1] + 1e-9, t[-1] + 5, 1e9])) == rf[-1]), "interp after last time")
                mid = 0.5 * (t[1:] + t[:-1])
                ok(np.max(np.abs(f(mid) - 0.5 * (rf[1:] + rf[:-1]))) <= 1e-13, "interp is linear")
                ok(same(res.recovery, rf), "cache is not the latest recovery")


def representations(t):
    big = np.empty(2 * len(t))
    big[::2] = t
    big[1::2] = -1.0
    ro = t.copy()
    ro.setflags(write=False)
    reps = {
        "list": list(map(float, t)),
        "tuple": tuple(map(float, t)),
        "series": pd.Series(t),
        "series-offset-index": pd.Series(t, index=np.arange(len(t)) + 100),
        "series-string-index": pd.Series(t, index=[f"d{i}" for i in range(len(t))]),
        "strided-view": big[::2],
        "read-only": ro,
        "fortran-2d-column": np.asfortranarray(np.stack([t, t], axis=1))[:, 0],
    }
    if np.all(t == np.round(t)):
        reps["int64"] = t.astype(np.int64)
        reps["int32"] = t.astype(np.int32)
        reps["uint16"] = t.astype(np.uint16)
        reps["list-of-int"] = [int(v) for v in t]
    return reps


def section_representations():
    accepted, rejected = [], []
    for kind in ("ideal", "single"):
        for t in (GRIDS["C"], np.array([0.0, 1, 2, 4, 7, 8, 12, 20, 21, 30])):
            sched = np.linspace(900.0, 400.0, len(t)).round()
            base = make(kind)
            if kind == "single":
                base.simulate(t, sched)
            else:
                base.simulate(t)
            want = snapshot(base)
            for name, rep in representations(t).items():
                for sname, srep in representations(sched).items() if kind == "single" else [("-", None)]:
                    if kind == "single" and name != sname and "list" not in (name, sname):
                        continue  # same representation for both, or mixed with a list
                    res = make(kind)
                    prior = make(kind)
                    prior.simulate(GRIDS["A"])
                    res.simulate(GRIDS["A"])
                    res.recovery_factor()

                    def run():
                        if kind == "single":
                            res.simulate(rep, srep)
                        else:
                            res.simulate(rep)
                        return 0

                    out = outcome(run)
                    tag = f"{kind}:{name}/{sname}"
                    if out[0] == "ok":
                        accepted.append(tag)
                        got = snapshot(res)
                        ok(
                            equal_snapshot(got, want, interp_tol=1e-14),
                            f"{tag}: accepted but results differ from float64 array",
                        )
                        check_backward_euler(res, kind, sched if kind == "single" else None, tag)
                        rf = outcome(lambda: np.array(res.recovery_factor(density=True)))
                        ok(rf[0] == "ok", f"{tag}: density recovery failed after accepted simulate")
                    else:
                        rejected.append(tag)
                        prior.recovery_factor()
                        ok(
                            equal_snapshot(snapshot(res), snapshot(prior)),
                            f"{tag}: rejected input changed what is readable",
                        )
    NOTES.append(f"representations accepted: {len(accepted)}, rejected: {len(rejected)}")
    NOTES.append("rejected: " + ", ".join(sorted(set(r.split(':')[0] + ':' + r.split(':')[1].split('/')[0] for r in rejected))))
    # things that can never be a time grid must raise and leave nothing behind
    for kind in ("ideal", "single"):
        for bad in (None, "abc", np.zeros((4, 2, 2)), [[0.0, 1.0], [2.0]], np.array([])):
            res = make(kind)
            out = outcome(lambda: res.simulate(bad))
            ok(out[0] == "raised", f"{kind}: nonsense time {bad!r} accepted")
            ok("time" not in res.__dict__ and "pseudopressure" not in res.__dict__, "nonsense left state")


def section_aliasing():
    for kind in ("ideal", "single"):
        t_in = GRIDS["A"].copy()
        s_in = SCHEDS["A"].copy()
        res = make(kind)
        if kind == "single":
            res.simulate(t_in, s_in)
        else:
            res.simulate(t_in)
        ok(t_in.flags.writeable and same(t_in, GRIDS["A"]), "caller's time array modified / frozen")
        ok(s_in.flags.writeable and same(s_in, SCHEDS["A"]), "caller's schedule modified / frozen")
        ret = res.recovery_factor()
        want = snapshot(res)
        ok(same(ret, want["rec"]), "returned recovery is not the cached one")
        # the caller scribbles over a returned array it is allowed to write to
        if ret is not res.recovery and ret.flags.writeable:
            ret[:] = -7.0
            ok(equal_snapshot(snapshot(res), want), "writing to a returned copy changed the reservoir")
        # the caller changes the schedule array afterwards: never visible
        s_in[:] = 4000.0
        ok(equal_snapshot(snapshot(res), want), "later change of the schedule argument is visible")
        # the caller changes the time array afterwards: either the reservoir holds that very
        # array (reference semantics) or it is unaffected (copy semantics); the field is
        # unaffected in both cases
        t_in[3:] += 0.125
        if res.time is t_in:
            NOTES.append(f"{kind}: reservoir keeps a reference to the caller's time array")
        else:
            ok(same(res.time, want["time"]), "private time copy changed with the caller's array")
            ok(equal_snapshot(snapshot(res), want), "caller's later edit is visible")
        ok(same(res.pseudopressure, want["pp"]), "field changed with the caller's array")
        # simulate again with the edited arrays: fresh-object results for the edited values
        fresh = make(kind)
        if kind == "single":
            res.simulate(t_in, SCHEDS["A"])
            fresh.simulate(t_in.copy(), SCHEDS["A"].copy())
        else:
            res.simulate(t_in)
            fresh.simulate(t_in.copy())
        ok(equal_snapshot(snapshot(res), snapshot(fresh)), "re-run with edited arrays differs from fresh")
        # one array object for several objects and calls
        twins = [make(kind) for _ in range(3)]
        for obj in twins:
            obj.simulate(GRIDS["B"])
        twins[0].recovery_factor()
        twins[1].recovery_factor(density=True)
        twins[1].simulate(GRIDS["C"])
        for obj, ops in zip(twins, ([("sim", "B", None), ("rf",)], [("sim", "C", None)], [("sim", "B", None)])):
            fresh = make(kind)
            for o in ops:
                apply(fresh, kind, o)
            ok(equal_snapshot(snapshot(obj), snapshot(fresh)), "twin objects interfere")
        # stored results cannot be made inconsistent through writable handles, or if they
        # are writable they are at least not shared between twins
        ok(not np.shares_memory(np.asarray(twins[0].pseudopressure), np.asarray(twins[2].pseudopressure)), "shared field")


def sample_reference(t, rec, x):
    order = np.argsort(t, kind="stable")
    return np.interp(x, t[order], rec[order], left=0.0, right=rec[-1])


def section_explicit_time():
    modes = set()
    for kind in ("ideal", "single"):
        for g in "ABC":
            t = GRIDS[g]
            requests = {
                "grid-object": None,  # filled below with the stored array itself
                "grid-copy": t.copy(),
                "grid-list": list(t),
                "subset": t[::3].copy(),
                "midpoints": 0.5 * (t[1:] + t[:-1]),
                "outside": np.array([t[0] - 2.0, t[0], 0.5 * (t[0] + t[1]), t[-1], t[-1] + 3.0]),
                "other-grid": GRIDS["B" if g != "B" else "A"],
                "unsorted": np.array([t[5], t[1], t[-1] + 1, t[2] + 1e-3]),
                "scalar": float(0.5 * (t[3] + t[4])),
                "longer": np.linspace(t[0] - 1, t[-1] + 1, 3 * len(t)),
            }
            for density in (False, True):
                for name, x in requests.items():
                    res, fresh = make(kind), make(kind)
                    if kind == "single":
                        res.simulate(t, SCHEDS[g])
                        fresh.simulate(t, SCHEDS[g])
                    else:
                        res.simulate(t)
                        fresh.simulate(t)
                    if name == "grid-object":
                        x = res.time
                    on_grid = np.array(fresh.recovery_factor(density=density))
                    want = snapshot(fresh)
                    ret = np.asarray(res.recovery_factor(x, density=density))
                    tag = f"explicit time {kind} {g} {name} density={density}"
                    if name.startswith("grid"):
                        ok(same(ret, on_grid), f"{tag}: recovery at the simulated times differs")
                    elif same(ret, on_grid):
                        modes.add("ignores explicit time (returns recovery on the simulated grid)")
                    else:
                        modes.add("samples recovery at the requested times")
                        xa = np.asarray(x, dtype=float)
                        ok(ret.shape == xa.shape, f"{tag}: shape {ret.shape} for request {xa.shape}")
                        ref = sample_reference(t, on_grid, xa)
                        ok(np.max(np.abs(ret - ref)) <= 1e-13 * max(1.0, np.max(np.abs(on_grid))), f"{tag}: wrong sample")
                        f = fresh.recovery_factor_interpolator()
                        ok(np.max(np.abs(ret - f(xa))) <= 1e-13, f"{tag}: disagrees with the interpolator")
                    # cache and interpolator stay on the simulated grid, whatever was asked
                    ok(same(res.recovery, on_grid), f"{tag}: cache left the simulated grid")
                    ok(equal_snapshot(snapshot(res), want), f"{tag}: state differs from fresh")
                    again = np.asarray(res.recovery_factor(x, density=density))
                    ok(same(ret, again), f"{tag}: repeat differs")
                    # and a new run forgets all of it
                    res.simulate(GRIDS["C"])
                    fresh2 = make(kind)
                    fresh2.simulate(GRIDS["C"])
                    ok(equal_snapshot(snapshot(res), snapshot(fresh2)), f"{tag}: stale after re-run")
    ok(len(modes) == 1, f"explicit time handled inconsistently: {modes}")
    NOTES.append("recovery_factor(time=X): " + modes.pop())


def main():
    section_backward_euler()
    section_errors_before_simulate()
    section_shift_and_schedule_forms()
    section_interpolator_contract()
    section_representations()
    section_aliasing()
    section_explicit_time()
    for kind in ("ideal", "single"):
        run_histories(kind, n_hist=25, length=9, seed=11, n_objects=1)
        run_histories(kind, n_hist=12, length=14, seed=23, n_objects=3)
    for note in NOTES:
        print("note:", note)
    print(f"selfcheck: all {N_CHECKS} checks hold")
    return 0


if __name__ == "__main__":
    sys.exit(main())
