"""Checks for property C17 (time-origin shifts, schedule forms, call protocol, interpolator).

Run as:  PYTHONPATH=<checkout>/src /venv/bin/python equiv.py
Exits 0 when every expectation holds.  The expectations come from the statement of
the property; in addition the library is compared with a compact transcription of
the algorithm as it stood before the change (rounding-level agreement).
"""

from __future__ import annotations

import copy
import sys
import warnings

import numpy as np
import pandas as pd
from scipy import integrate, interpolate, sparse
from scipy.sparse import linalg as sparse_linalg  # noqa: F401

warnings.simplefilter("ignore")

from bluebonnet.flow import FlowProperties, IdealReservoir, SinglePhaseReservoir  # noqa: E402

P_I = 8000.0
P_F = 1000.0
NX = 14
CHECKS = 0


def ok(cond, what):
    global CHECKS
    CHECKS += 1
    if not cond:
        print("FAILED:", what)
        sys.exit(1)


def close(a, b, tol, what):
    a = np.asarray(a, dtype=float)
    b = np.asarray(b, dtype=float)
    ok(a.shape == b.shape, what + f" (shape {a.shape} vs {b.shape})")
    both_nan = np.isnan(a) & np.isnan(b)
    err = np.max(np.where(both_nan, 0.0, np.abs(a - b))) if a.size else 0.0
    ok(err <= tol, what + f" (max abs difference {err:.3e} > {tol:.1e})")


def make_fluid(p_i=P_I):
    p = np.linspace(10.0, 12000.0, 600)
    z = 1.0 - 2.5e-5 * p + 4.0e-9 * p**2
    mu = 0.015 + 2.0e-6 * p
    cg = 1.0 / p * (1 + 1e-5 * p)
    rho = 0.003 * p / z
    m = integrate.cumulative_trapezoid(2 * p / (mu * z), p, initial=0.0) + 1.0
    df = pd.DataFrame(
        {
            "pressure": p,
            "z-factor": z,
            "viscosity": mu,
            "compressibility": cg,
            "density": rho,
            "pseudopressure": m,
        }
    )
    return FlowProperties(df, p_i)


FLUID = make_fluid()


# ---------------------------------------------------------------- reference (old algorithm)
def _ref_matrix(kt_h2):
    diagonal_long = 1.0 + 2 * kt_h2
    diagonal_long[-1] = 1.0 + kt_h2[-1]
    return sparse.diags([-kt_h2[1:], diagonal_long, -kt_h2[0:-1]], [-1, 0, 1], format="csr")


def ref_ideal(nx, time):
    time = np.asarray(time)
    x = np.linspace(0, 1, nx)
    dx_squared = (x[1] - x[0]) ** 2
    pp = np.empty((len(time), nx))
    pp[0, :] = 1.0
    for i in range(len(time) - 1):
        b = pp[i]
        mesh_ratio = (time[i + 1] - time[i]) / dx_squared
        pp[i + 1] = sparse.linalg.spsolve(_ref_matrix(mesh_ratio * np.ones_like(b)), b)
    return pp


def ref_single(nx, fluid, p_f, time, schedule=None):
    time = np.asarray(time)
    dx_squared = (1 / nx) ** 2
    pp = np.empty((len(time), nx))
    if schedule is None:
        schedule = np.full(len(time), p_f)
    m_i = fluid.m_i
    m_f = fluid.m_scaled_func(schedule)
    first = np.full(nx, m_i)
    first[0] = m_f[0]
    pp[0, :] = first

    def alpha_scaled(m):
        return fluid.alpha(m) / fluid.alpha(m_i)

    for i in range(len(time) - 1):
        mesh_ratio = (time[i + 1] - time[i]) / dx_squared
        b = np.minimum(pp[i].copy(), m_i)
        b[0] = m_f[i] + alpha_scaled(m_f[i]) * m_f[i] * mesh_ratio
        pp[i + 1] = sparse.linalg.spsolve(_ref_matrix(mesh_ratio * alpha_scaled(b)), b)
    return pp


def ref_recovery(pp, time, nx, fluid, density, fvf):
    time = np.asarray(time)
    if density:
        to_mass = interpolate.interp1d(
            fluid.pvt_props["m-scaled"], fluid.pvt_props["density"], fill_value="extrapolate"
        )
        mass = np.sum(to_mass(pp), 1)
        cumulative = 1.0 - mass / mass[0]
    else:
        p3 = pp[:, :3]
        rate = (-p3[:, 2] + 4 * p3[:, 1] - 3 * p3[:, 0]) * (nx - 1.0) * 0.5
        cumulative = integrate.cumulative_trapezoid(rate, time, initial=0)
    return cumulative * fvf


# ---------------------------------------------------------------- cases
G_SQRT = np.linspace(0, np.sqrt(2.0), 25) ** 2  # non-uniform, starts at 0
G_NEG = G_SQRT * 3.0 - 0.7  # starts below zero
G_INT = np.arange(0, 7)  # integer dtype
G_INT_NEG = np.array([-3, -1, 0, 4, 5, 9])  # integer dtype, negative, non-uniform
G_ONE = np.array([2.5])  # single point
G_TWO = np.array([-1.0, 0.25])
GRIDS = {
    "sqrt": G_SQRT,
    "neg": G_NEG,
    "int": G_INT,
    "int_neg": G_INT_NEG,
    "one": G_ONE,
    "two": G_TWO,
}
SHIFTS = (0.5, -2.0, 1.0e3, 7, -12345.678)


def schedules(n):
    """Time-varying and constant frac-face schedules of length n."""
    ramp = np.linspace(P_I, 500.0, n)
    shut_in = np.where(np.arange(n) < n // 2, 1200.0, P_I)  # draw down, then shut in at p_i
    build_up = np.where(np.arange(n) < n // 2, 2000.0, 9000.0)  # ends above initial pressure
    at_initial = np.full(n, P_I)
    nan_padded = ramp.copy()
    nan_padded[-1] = np.nan  # the last entry is never used by the stepping
    return {
        "ramp": ramp,
        "shut_in": shut_in,
        "build_up": build_up,
        "at_initial": at_initial,
        "nan_padded": nan_padded,
    }


def tol_for(grid, shift):
    grid = np.asarray(grid, dtype=float)
    if len(grid) < 2:
        return 0.0
    dt = np.min(np.diff(grid))
    span = abs(shift) + np.max(np.abs(grid))
    return 1e-12 + 256 * np.finfo(float).eps * span / dt


def run(cls, time, schedule=None, p_f=P_F):
    res = cls(NX, p_f, P_I, FLUID)
    if schedule is None:
        res.simulate(time)
    else:
        res.simulate(time, schedule)
    return res


def both_recoveries(res):
    rate = np.array(res.recovery_factor(), dtype=float)
    dens = np.array(res.recovery_factor(density=True), dtype=float)
    return rate, dens


# ---------------------------------------------------------------- 1. shifts
def check_shift_invariance():
    for name, grid in GRIDS.items():
        for shift in SHIFTS:
            if isinstance(shift, float) and grid.dtype.kind == "i":
                shifted = grid.astype(float) + shift
            else:
                shifted = grid + shift
            tol = tol_for(grid, shift)
            for cls in (IdealReservoir, SinglePhaseReservoir):
                a, b = run(cls, grid), run(cls, shifted)
                what = f"shift {shift} grid {name} {cls.__name__}"
                close(a.pseudopressure, b.pseudopressure, tol, what + " pseudopressure")
                for ra, rb, mode in zip(both_recoveries(a), both_recoveries(b), ("rate", "density")):
                    close(ra, rb, 10 * tol * max(1.0, len(grid)), what + " recovery " + mode)
            if len(grid) >= 2:
                for sname, sched in schedules(len(grid)).items():
                    a = run(SinglePhaseReservoir, grid, sched)
                    b = run(SinglePhaseReservoir, shifted, sched)
                    what = f"shift {shift} grid {name} schedule {sname}"
                    close(a.pseudopressure, b.pseudopressure, tol, what + " pseudopressure")
                    for ra, rb in zip(both_recoveries(a), both_recoveries(b)):
                        close(ra, rb, 10 * tol * len(grid), what + " recovery")


# ---------------------------------------------------------------- 2. constant schedule == scalar
def check_constant_schedule():
    for name, grid in GRIDS.items():
        n = len(grid)
        for p_f in (P_F, 250.0, P_I, 100):
            scalar = run(SinglePhaseReservoir, grid, None, p_f)
            forms = {
                "float array": np.full(n, float(p_f)),
                "int array": np.full(n, int(p_f)),
                "list": [float(p_f)] * n,
                "tuple": tuple([p_f] * n),
                "series": pd.Series(np.full(n, float(p_f))),
            }
            for fname, sched in forms.items():
                const = run(SinglePhaseReservoir, grid, sched, p_f)
                what = f"constant schedule ({fname}) p_f={p_f} grid {name}"
                ok(
                    np.array_equal(scalar.pseudopressure, const.pseudopressure),
                    what + " pseudopressure exactly equal",
                )
                for ra, rb in zip(both_recoveries(scalar), both_recoveries(const)):
                    ok(np.array_equal(ra, rb), what + " recovery exactly equal")
            # and on one object, in either order
            res = SinglePhaseReservoir(NX, p_f, P_I, FLUID)
            res.simulate(grid, np.full(n, float(p_f)))
            first = res.pseudopressure.copy()
            res.simulate(grid)
            ok(np.array_equal(first, res.pseudopressure), "schedule then scalar, same object")
            ok(np.array_equal(first, scalar.pseudopressure), "same object equals fresh object")
            ok(res.pressure_fracface == p_f, "the schedule of one run is not kept on the object")


# ---------------------------------------------------------------- 3. wrong lengths
def check_length_mismatch():
    for name, grid in GRIDS.items():
        n = len(grid)
        res = run(SinglePhaseReservoir, G_SQRT, schedules(len(G_SQRT))["ramp"])
        rec_before = np.array(res.recovery_factor(density=True))
        pp_before = res.pseudopressure.copy()
        kept = res.recovery_factor_interpolator()
        for m in sorted({0, 1, 2, n - 1, n + 1, 2 * n, 3 * n + 1} - {n}):
            if m < 0:
                continue
            for form in (np.full(m, 900.0), [900.0] * m, np.full(m, 900), pd.Series(np.full(m, 900.0))):
                try:
                    res.simulate(grid, form)
                except ValueError:
                    pass
                except Exception as e:  # noqa: BLE001
                    ok(False, f"length {m} vs {n} ({name}) raised {type(e).__name__}, not ValueError")
                else:
                    ok(False, f"length {m} vs {n} ({name}) was accepted")
                ok(True, "rejected")
            fresh = SinglePhaseReservoir(NX, P_F, P_I, FLUID)
            try:
                fresh.simulate(grid, np.full(m, 900.0))
            except ValueError:
                # a rejected first call is not a simulation
                for call in (fresh.recovery_factor, fresh.recovery_factor_interpolator):
                    try:
                        call()
                    except RuntimeError:
                        ok(True, "still not simulated")
                    else:
                        ok(False, "recovery available after a rejected simulate")
            else:
                ok(False, f"fresh object accepted length {m} vs {n}")
        # the earlier results are still there and still consistent
        ok(np.array_equal(res.pseudopressure, pp_before), "rejected calls leave pseudopressure alone")
        ok(np.array_equal(res.time, G_SQRT), "rejected calls leave time alone")
        close(res.recovery_factor_interpolator()(G_SQRT), rec_before, 1e-13, "interpolator after rejects")
        close(kept(G_SQRT), rec_before, 1e-13, "kept interpolator after rejects")
        # and the object still simulates
        res.simulate(grid, np.full(n, 900.0))
        ok(res.pseudopressure.shape == (n, NX), "simulates after rejects")


# ---------------------------------------------------------------- 4. nothing simulated yet
def check_not_simulated():
    for cls in (IdealReservoir, SinglePhaseReservoir):
        res = cls(NX, P_F, P_I, FLUID)
        for label, call, documented in (
            ("recovery_factor()", lambda: res.recovery_factor(), True),
            ("recovery_factor(density=True)", lambda: res.recovery_factor(density=True), True),
            ("recovery_factor(None, True)", lambda: res.recovery_factor(None, True), True),
            ("recovery_factor(time)", lambda: res.recovery_factor(G_SQRT), False),
            ("recovery_factor(time, density)", lambda: res.recovery_factor(G_SQRT, density=True), False),
            ("recovery_factor_interpolator()", lambda: res.recovery_factor_interpolator(), True),
        ):
            for _ in range(2):  # asking twice does not make it succeed
                try:
                    call()
                except RuntimeError:
                    ok(True, label)
                except (AttributeError, ValueError, TypeError) as e:
                    ok(not documented, f"{cls.__name__}.{label} raised {type(e).__name__}")
                else:
                    ok(False, f"{cls.__name__}.{label} did not raise before simulate")
        ok("recovery" not in res.__dict__, "failed requests leave no recovery behind")
        # afterwards the object works normally
        res.simulate(G_SQRT)
        close(res.recovery_factor_interpolator()(G_SQRT), res.recovery_factor(), 1e-13, "works after")


# ---------------------------------------------------------------- 5. interpolator
def check_interpolator_on(res, what):
    time = np.asarray(res.time, dtype=float)
    span = max(1.0, time[-1] - time[0])
    before = np.array([time[0] - 1e-9 * span, time[0] - 1.0, time[0] - 1e6, -np.inf])
    after = np.array([time[-1] + 1e-9 * span, time[-1] + 1.0, time[-1] + 1e6, np.inf])
    for density in (False, True, False, True):
        rec = np.array(res.recovery_factor(density=density), dtype=float)
        f = res.recovery_factor_interpolator()
        mode = " density" if density else " rate"
        close(f(time), rec, 1e-13, what + mode + " at the simulated times")
        close(f(before), np.zeros(4), 0.0, what + mode + " before the first time")
        close(f(after), np.full(4, rec[-1]), 0.0, what + mode + " after the last time")
        for j in (0, len(time) - 1, len(time) // 2):
            close(np.ravel(f(time[j])), [rec[j]], 1e-13, what + mode + " scalar argument")
            close(np.ravel(f([time[j]])), [rec[j]], 1e-13, what + mode + " list argument")
        if len(time) > 1:
            mid = 0.5 * (time[1:] + time[:-1])
            lo = np.minimum(rec[1:], rec[:-1])
            hi = np.maximum(rec[1:], rec[:-1])
            got = f(mid)
            ok(np.all(got >= lo - 1e-13) and np.all(got <= hi + 1e-13), what + mode + " between")
            slack = 1e-12 + 64 * np.finfo(float).eps * np.max(np.abs(time)) / np.min(np.diff(time))
            close(got, 0.5 * (rec[1:] + rec[:-1]), slack, what + mode + " linear between times")
            grid2 = np.array([[time[0], time[-1]], [time[0] - 1, time[-1] + 1]])
            close(f(grid2), [[rec[0], rec[-1]], [0.0, rec[-1]]], 1e-13, what + mode + " 2-d")
        ok(rec[0] == 0.0, what + mode + " starts at zero")


def check_interpolator():
    for name, grid in GRIDS.items():
        for shift in (0, -2.0, 1.0e3):
            t = grid + shift if shift else grid
            for cls in (IdealReservoir, SinglePhaseReservoir):
                check_interpolator_on(run(cls, t), f"interpolator {cls.__name__} {name}+{shift}")
            if len(grid) >= 2:
                for sname, sched in schedules(len(grid)).items():
                    res = run(SinglePhaseReservoir, t, sched)
                    check_interpolator_on(res, f"interpolator schedule {sname} {name}+{shift}")
    # default (nothing cached) is the rate-based recovery
    for cls in (IdealReservoir, SinglePhaseReservoir):
        res = run(cls, G_NEG)
        f = res.recovery_factor_interpolator()
        close(f(G_NEG), run(cls, G_NEG).recovery_factor(), 1e-13, "default interpolator is rate based")
        # interpolators kept across later calls keep their values
        res.recovery_factor(density=True)
        g = res.recovery_factor_interpolator()
        dens = np.array(res.recovery)
        rate = np.array(run(cls, G_NEG).recovery_factor())
        res.simulate(G_INT + 40)
        h = res.recovery_factor_interpolator()
        close(h(G_INT + 40), run(cls, G_INT + 40).recovery_factor(), 1e-13, "new run, new default")
        close(h(G_NEG[-1]), 0.0, 0.0, "new run: old times are before the first time")
        res.recovery_factor(density=True)
        close(f(G_NEG), rate, 1e-13, "kept rate interpolator unchanged")
        close(g(G_NEG), dens, 1e-13, "kept density interpolator unchanged")
        close(f(G_NEG[0] - 1), 0.0, 0.0, "kept interpolator before")
        close(g(G_NEG[-1] + 100), dens[-1], 0.0, "kept interpolator after")
    # two objects sharing a fluid do not interfere
    a = run(SinglePhaseReservoir, G_SQRT, schedules(len(G_SQRT))["shut_in"])
    fa = a.recovery_factor_interpolator()
    ra = np.array(a.recovery)
    b = run(SinglePhaseReservoir, G_NEG, schedules(len(G_NEG))["build_up"], p_f=300.0)
    b.recovery_factor(density=True)
    close(fa(G_SQRT), ra, 1e-13, "shared fluid: first object's interpolator")
    close(a.recovery_factor_interpolator()(G_SQRT), ra, 1e-13, "shared fluid: first object's state")


# ---------------------------------------------------------------- 6. agreement with the old algorithm
def check_against_reference():
    for name, grid in GRIDS.items():
        for shift in (0, 1.0e3):
            t = grid + shift if shift else grid
            res = run(IdealReservoir, t)
            pp = ref_ideal(NX, t)
            close(res.pseudopressure, pp, 1e-12, f"reference ideal {name}")
            for density in (False, True):
                close(
                    res.recovery_factor(density=density),
                    ref_recovery(pp, t, NX, FLUID, density, 1 - P_F / P_I),
                    1e-11,
                    f"reference ideal recovery {name}",
                )
            cases = {"scalar": None}
            if len(grid) >= 2:
                cases.update(schedules(len(grid)))
            for sname, sched in cases.items():
                res = run(SinglePhaseReservoir, t, sched)
                pp = ref_single(NX, FLUID, P_F, t, sched)
                close(res.pseudopressure, pp, 1e-12, f"reference single {name} {sname}")
                for density in (False, True):
                    close(
                        res.recovery_factor(density=density),
                        ref_recovery(pp, t, NX, FLUID, density, 1),
                        1e-11,
                        f"reference single recovery {name} {sname}",
                    )


def check_fluid_untouched():
    fluid = make_fluid()
    snapshot = copy.deepcopy(fluid.pvt_props)
    res = SinglePhaseReservoir(NX, P_F, P_I, fluid)
    res.simulate(G_SQRT, schedules(len(G_SQRT))["build_up"])
    res.recovery_factor(density=True)
    res.recovery_factor_interpolator()
    ok(snapshot.equals(fluid.pvt_props), "the fluid tables are not modified")


def run_core():
    check_shift_invariance()
    check_constant_schedule()
    check_length_mismatch()
    check_not_simulated()
    check_interpolator()
    check_against_reference()
    check_fluid_untouched()


# ---------------------------------------------------------------- specific to this change
def check_specific():
    from bluebonnet.flow import FracfaceScheduleError
    from bluebonnet.flow import reservoir as module

    ok(issubclass(FracfaceScheduleError, ValueError), "the new exception is a ValueError")
    ok(module.FracfaceScheduleError is FracfaceScheduleError, "exported from the package")

    # every wrong length is rejected with the documented type, for every form of schedule
    for name, grid in GRIDS.items():
        n = len(grid)
        for m in (0, 1, 2, n - 1, n + 1, 5 * n):
            if m == n or m < 0:
                continue
            for time_form in (grid, list(grid), pd.Series(grid, index=np.arange(n) + 3)):
                res = SinglePhaseReservoir(NX, P_F, P_I, FLUID)
                try:
                    res.simulate(time_form, np.linspace(900.0, 950.0, m))
                except FracfaceScheduleError as e:
                    ok(f"{m} versus {n}" in str(e), "message names both lengths")
                else:
                    ok(False, f"length {m} vs {n} accepted")
                ok("time" not in res.__dict__ and "pseudopressure" not in res.__dict__, "no state")
    # wrong shapes with the right leading length are not schedules either
    res = SinglePhaseReservoir(NX, P_F, P_I, FLUID)
    for bad in (np.full((len(G_SQRT), 1), 900.0), np.full((len(G_SQRT), 2), 900.0), np.full((1, len(G_SQRT)), 900.0)):
        try:
            res.simulate(G_SQRT, bad)
        except ValueError:
            ok(True, "2-d schedule rejected")
        else:
            ok(False, "2-d schedule accepted")
    for call in (lambda: res.simulate(G_SQRT, 900.0), lambda: res.simulate(3.0)):
        try:
            call()
        except TypeError:
            ok(True, "scalars are a TypeError as before")
        else:
            ok(False, "scalar accepted")
    for cls in (IdealReservoir, SinglePhaseReservoir):
        try:
            cls(NX, P_F, P_I, FLUID).simulate(np.zeros((4, 2)))
        except ValueError:
            ok(True, "2-d time rejected")
        else:
            ok(False, "2-d time accepted")

    # lists, tuples, integer arrays, Series (any index) give what the array gives
    for name, grid in GRIDS.items():
        n = len(grid)
        forms = {
            "list": list(grid),
            "python list": grid.tolist(),
            "tuple": tuple(grid.tolist()),
            "series": pd.Series(grid),
            "series, shifted index": pd.Series(grid, index=np.arange(n) + 5),
            "series, string index": pd.Series(grid, index=[f"t{i}" for i in range(n)]),
        }
        scheds = {"scalar": None}
        if n >= 2:
            scheds.update(schedules(n))
        for cls in (IdealReservoir, SinglePhaseReservoir):
            for sname, sched in scheds.items():
                if cls is IdealReservoir and sched is not None:
                    continue
                base = run(cls, grid, sched)
                ok(base.time is grid, "an ndarray is stored as given")
                rate, dens = both_recoveries(base)
                for fname, form in forms.items():
                    other = run(cls, form, sched)
                    what = f"{cls.__name__} time as {fname} ({name}, {sname})"
                    ok(isinstance(other.time, np.ndarray), what + " stored as array")
                    ok(np.array_equal(other.time, grid), what + " same times")
                    ok(np.array_equal(other.pseudopressure, base.pseudopressure), what + " field")
                    r2, d2 = both_recoveries(other)
                    ok(np.array_equal(r2, rate) and np.array_equal(d2, dens), what + " recovery")
                    f = other.recovery_factor_interpolator()
                    close(f(grid), d2, 1e-13, what + " interpolator")
                    close(f(np.min(grid) - 1.0), 0.0, 0.0, what + " before")
                    close(f(np.max(grid) + 1.0), d2[-1], 0.0, what + " after")
    # list input shifted by a constant
    a = run(SinglePhaseReservoir, list(G_NEG), list(schedules(len(G_NEG))["shut_in"]))
    b = run(SinglePhaseReservoir, list(G_NEG + 17.25), list(schedules(len(G_NEG))["shut_in"]))
    close(a.pseudopressure, b.pseudopressure, tol_for(G_NEG, 17.25), "list input shifted")


if __name__ == "__main__":
    run_core()
    check_specific()
    print("all", CHECKS, "checks passed")
