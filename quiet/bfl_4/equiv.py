from __future__ import annotations

import copy
import sys
import warnings
from pathlib import Path
from types import SimpleNamespace

import numpy as np
import pandas as pd
from scipy import integrate, sparse
from scipy.interpolate import interp1d
from scipy.sparse.linalg import spsolve

import bluebonnet
from bluebonnet.flow import FlowProperties, IdealReservoir, SinglePhaseReservoir
from bluebonnet.flow.flowproperties import FlowPropertiesSimple

warnings.simplefilter("ignore")
np.seterr(all="ignore")

N_CHECKS = 0


def ok(cond, what):
    """Count a check; abort with exit code 1 on the first failure."""
    global N_CHECKS
    N_CHECKS += 1
    if not cond:
        print("FAILED:", what)
        sys.exit(1)


def close(a, b, tol=1e-11):
    a = np.asarray(a, dtype=float)
    b = np.asarray(b, dtype=float)
    if a.shape != b.shape:
        return False
    scale = max(1.0, float(np.nanmax(np.abs(b))) if b.size else 1.0)
    return bool(np.all((np.abs(a - b) <= tol * scale) | (np.isnan(a) & np.isnan(b))))


def raises(exc, fn, *args, **kwargs):
    try:
        fn(*args, **kwargs)
    except exc:
        return True
    except Exception as e:  # noqa: BLE001
        print("   wrong exception", type(e), e)
        return False
    return False


# --------------------------------------------------------------------------
# tables
# --------------------------------------------------------------------------
def gas_table(n=160, pmin=14.7, pmax=12000.0, p_ref=None, descending=False):
    """Synthetic real-gas table (dict of ndarrays) on a non-uniform pressure grid."""
    p = pmin + (pmax - pmin) * np.linspace(0, 1, n) ** 1.6
    z = 1 - 3.1e-5 * p + 4.2e-9 * p**2
    dz = -3.1e-5 + 8.4e-9 * p
    mu = 0.0142 + 1.9e-6 * p + 3e-11 * p**2
    c = 1 / p - dz / z
    rho = 0.0028 * p / z
    m = integrate.cumulative_trapezoid(2 * p / (mu * z), p, initial=0)
    if p_ref is not None:  # pseudopressure measured from a base pressure: negative below it
        m = m - np.interp(p_ref, p, m)
    tab = {
        "pressure": p,
        "z-factor": z,
        "viscosity": mu,
        "compressibility": c,
        "density": rho,
        "pseudopressure": m,
    }
    if descending:
        tab = {k: v[::-1].copy() for k, v in tab.items()}
    return tab


def alpha_table(n=90):
    """Table in the short form (pressure, pseudopressure, alpha) with a density column."""
    t = gas_table(n, pmin=50.0, pmax=9000.0)
    return {
        "pressure": t["pressure"],
        "pseudopressure": t["pseudopressure"] + 1.0e5,
        "alpha": 1 / (t["compressibility"] * t["viscosity"]) * (1 + 0.1 * np.sin(t["pressure"] / 900)),
        "density": t["density"],
    }


def liquid_table(n=60):
    p = np.linspace(100.0, 9000.0, n)
    return {
        "pressure": p,
        "compressibility": 1.1e-5 * (1 + 2.0e-5 * (9000 - p)),
        "viscosity": 0.9 + 1.5e-4 * p,
        "density": 48.0 * np.exp(1.1e-5 * (p - 100.0)),
    }


def csv_gas_table():
    """The test-suite's gas table if the checkout has it (int pressure column, p=0 row)."""
    path = Path(bluebonnet.__file__).resolve().parents[2] / "tests" / "data" / "pvt_gas.csv"
    if not path.exists():
        return None
    return pd.read_csv(path).rename(
        columns={
            "P": "pressure",
            "Z-Factor": "z-factor",
            "Cg": "compressibility",
            "Viscosity": "viscosity",
            "Density": "density",
        }
    )


# --------------------------------------------------------------------------
# transcription of the ORIGINAL fluid classes (interp1d based)
# --------------------------------------------------------------------------
def ref_fluid(pvt_props, p_i):
    pvt_props = copy.copy(pvt_props)
    if "alpha" in pvt_props:
        m_scale_func = interp1d(pvt_props["pressure"], 1 / pvt_props["pseudopressure"])
        m_scaling_factor = m_scale_func(p_i)
    else:
        pseudopressure_scaling = (
            1
            / 2
            * pvt_props["compressibility"]
            * pvt_props["pressure"]
            * pvt_props["viscosity"]
            * pvt_props["z-factor"]
            / pvt_props["pressure"] ** 2
        )
        m_scale_func = interp1d(pvt_props["pressure"], pseudopressure_scaling)
        m_scaling_factor = m_scale_func(p_i)
        pvt_props["alpha"] = 1 / (pvt_props["compressibility"] * pvt_props["viscosity"])
    pvt_props["m-scaled"] = pvt_props["pseudopressure"] * m_scaling_factor
    f = SimpleNamespace()
    f.m_scaled_func = interp1d(pvt_props["pressure"], pvt_props["m-scaled"])
    f.m_i = f.m_scaled_func(p_i)
    f.alpha = interp1d(
        pvt_props["m-scaled"],
        pvt_props["alpha"],
        fill_value=(min(pvt_props["alpha"]), max(pvt_props["alpha"])),
        bounds_error=False,
    )
    f.pvt_props = pvt_props
    return f


def ref_fluid_simple(pvt_props, p_i):
    pvt_props = copy.copy(pvt_props)
    pvt_props["alpha"] = 1 / (pvt_props["compressibility"] * pvt_props["viscosity"])
    pvt_props["m-scaled"] = pvt_props["pressure"]
    f = SimpleNamespace()
    f.m_scaled_func = interp1d(pvt_props["pressure"], pvt_props["m-scaled"])
    f.m_i = f.m_scaled_func(p_i)
    f.alpha = interp1d(
        pvt_props["m-scaled"],
        pvt_props["alpha"],
        fill_value=(min(pvt_props["alpha"]), max(pvt_props["alpha"])),
        bounds_error=False,
    )
    f.pvt_props = pvt_props
    return f


# --------------------------------------------------------------------------
# transcription of the ORIGINAL simulators
# --------------------------------------------------------------------------
def ref_matrix(kt_h2):
    d = 1.0 + 2 * kt_h2
    d[-1] = 1.0 + kt_h2[-1]
    return sparse.diags([-kt_h2[1:], d, -kt_h2[0:-1]], [-1, 0, 1], format="csr")


def ref_sim_ideal(nx, time):
    x = np.linspace(0, 1, nx)
    dx2 = (x[1] - x[0]) ** 2
    pp = np.empty((len(time), nx))
    pp[0, :] = 1.0
    for i in range(len(time) - 1):
        b = pp[i]
        kt = (time[i + 1] - time[i]) / dx2 * np.ones_like(b)
        pp[i + 1] = spsolve(ref_matrix(kt), b)
    return pp


def ref_alpha_scaled(f, m):
    return f.alpha(m) / f.alpha(f.m_i)


def ref_sim_single(nx, p_f, f, time, schedule=None):
    dx2 = (1 / nx) ** 2
    pp = np.empty((len(time), nx))
    if schedule is None:
        schedule = np.full(len(time), p_f)
    m_i = f.m_i
    m_f = f.m_scaled_func(schedule)
    pp[0, :] = m_i
    pp[0, 0] = m_f[0]
    for i in range(len(time) - 1):
        r = (time[i + 1] - time[i]) / dx2
        b = np.minimum(pp[i].copy(), m_i)
        b[0] = m_f[i] + ref_alpha_scaled(f, m_f[i]) * m_f[i] * r
        kt = r * ref_alpha_scaled(f, b)
        pp[i + 1] = spsolve(ref_matrix(kt), b)
    return pp


def ref_recovery(pp, time, nx, fvf, f=None, density=False):
    if density:
        lookup = interp1d(f.pvt_props["m-scaled"], f.pvt_props["density"], fill_value="extrapolate")
        mass = np.sum(lookup(pp), 1)
        cum = 1.0 - mass / mass[0]
    else:
        q = pp[:, :3]
        rate = (-q[:, 2] + 4 * q[:, 1] - 3 * q[:, 0]) * (nx - 1.0) * 0.5
        cum = integrate.cumulative_trapezoid(rate, time, initial=0)
    return cum * fvf


# --------------------------------------------------------------------------
# property checks run against the library under test
# --------------------------------------------------------------------------
def time_grid(n=40, t_end=2.0, seed=0, shift=0.0):
    """Non-uniform time grid (random increments spanning two decades)."""
    rng = np.random.default_rng(seed)
    dt = 10 ** rng.uniform(-4, -2, n - 1)
    t = np.concatenate([[0.0], np.cumsum(dt)])
    return shift + t * (t_end / t[-1])


def check_c04(res, schedule=None, tol=1e-10):
    """Every stored level is the backward-Euler update of the previous one."""
    t, pp = res.time, res.pseudopressure
    single = isinstance(res, SinglePhaseReservoir)
    dx2 = (1 / res.nx) ** 2 if single else (1 / (res.nx - 1)) ** 2
    if single:
        pf = np.full(len(t), res.pressure_fracface) if schedule is None else np.asarray(schedule)
        m_f = res.fluid.m_scaled_func(pf)
        m_i = res.fluid.m_i
    worst = 0.0
    for i in range(len(t) - 1):
        r = (t[i + 1] - t[i]) / dx2
        if single:
            b = np.minimum(pp[i].copy(), m_i)
            b[0] = m_f[i] + res.alpha_scaled(m_f[i]) * m_f[i] * r
        else:
            b = pp[i].copy()
        kt = r * res.alpha_scaled(b)
        resid = ref_matrix(kt) @ pp[i + 1] - b
        worst = max(worst, np.max(np.abs(resid)) / np.max(np.abs(b)))
    ok(np.isfinite(pp).all(), "C04 finite field")
    ok(worst < tol, f"C04 residual {worst:.2e}")


def state(res):
    rec = res.__dict__.get("recovery", None)
    return (
        np.array(res.time, copy=True),
        np.array(res.pseudopressure, copy=True),
        None if rec is None else np.array(rec, copy=True),
    )


def same_state(a, b):
    if not (np.array_equal(a[0], b[0]) and np.array_equal(a[1], b[1])):
        return False
    if (a[2] is None) != (b[2] is None):
        return False
    return a[2] is None or np.array_equal(a[2], b[2])


def check_c10(make, ops_list, grids, probe):
    """History independence: replay on one object vs fresh object with only the tail."""
    for ops in ops_list:
        res = make()
        outs = []
        last_sim = None
        for k, op in enumerate(ops):
            outs.append(apply_op(res, op, grids, probe))
            if op[0] == "sim":
                last_sim = k
        fresh = make()
        outs_fresh = [apply_op(fresh, op, grids, probe) for op in ops[last_sim:]]
        ok(same_state(state(res), state(fresh)), f"C10 state after {ops}")
        for a, b in zip(outs[last_sim:], outs_fresh):
            ok(
                (a is None and b is None) or np.array_equal(a, b, equal_nan=True),
                f"C10 outputs after {ops}",
            )
        # repeating the last call gives the same answer
        again = apply_op(res, ops[-1], grids, probe)
        ok(
            (again is None and outs[-1] is None) or np.array_equal(again, outs[-1], equal_nan=True),
            f"C10 repeat {ops}",
        )


def apply_op(res, op, grids, probe):
    if op[0] == "sim":
        res.simulate(grids[op[1]])
        return None
    if op[0] == "rf":
        return np.array(res.recovery_factor(), copy=True)
    if op[0] == "rfd":
        return np.array(res.recovery_factor(density=True), copy=True)
    if op[0] == "itp":
        return np.array(res.recovery_factor_interpolator()(probe), copy=True)
    raise KeyError(op)


C10_HISTORIES = [
    [("sim", "A"), ("rf",), ("sim", "B"), ("itp",)],
    [("sim", "A"), ("rf",), ("sim", "C"), ("itp",), ("rf",)],
    [("sim", "C"), ("itp",), ("sim", "A"), ("rf",), ("itp",)],
    [("sim", "A"), ("rf",), ("rf",), ("sim", "B"), ("rf",), ("sim", "A"), ("itp",)],
]
C10_HISTORIES_DENSITY = [
    [("sim", "A"), ("rfd",), ("sim", "B"), ("itp",)],
    [("sim", "A"), ("rf",), ("sim", "C"), ("rfd",), ("itp",), ("rf",), ("itp",)],
    [("sim", "B"), ("rfd",), ("rfd",), ("sim", "A"), ("itp",), ("rfd",)],
]


def c10_grids():
    return {
        "A": time_grid(25, 1.5, seed=1),
        "B": time_grid(25, 0.4, seed=2),
        "C": time_grid(37, 3.0, seed=3),
    }


def check_c17(make, single, tol=1e-9):
    t = time_grid(30, 1.0, seed=5)
    base = make()
    base.simulate(t)
    rf = np.array(base.recovery_factor(), copy=True)
    for shift in (3.5, -0.125, 1.0e3):
        r2 = make()
        r2.simulate(t + shift)
        ok(close(r2.pseudopressure, base.pseudopressure, tol), f"C17 shift {shift} field")
        ok(close(r2.recovery_factor(), rf, tol), f"C17 shift {shift} recovery")
    if single:
        r3 = make()
        r3.simulate(t, np.full(len(t), float(base.pressure_fracface)))
        ok(np.array_equal(r3.pseudopressure, base.pseudopressure), "C17 constant schedule exact")
        ok(np.array_equal(r3.recovery_factor(), rf), "C17 constant schedule recovery exact")
        ok(np.ndim(r3.pressure_fracface) == 0, "schedule applies to that run only")
        for n in (len(t) - 1, len(t) + 1, 1):
            r4 = make()
            ok(raises(ValueError, r4.simulate, t, np.full(n, 500.0)), f"C17 length {n} rejected")
            ok("time" not in r4.__dict__, "rejected run leaves no state")
    r5 = make()
    ok(raises(RuntimeError, r5.recovery_factor), "C17 recovery before simulate")
    ok(raises(RuntimeError, r5.recovery_factor_interpolator), "C17 interpolator before simulate")
    itp = base.recovery_factor_interpolator()
    ok(close(itp(t), rf, 1e-13), "C17 interpolator reproduces recovery")
    ok(float(itp(t[0] - 1.0)) == 0.0, "C17 interpolator 0 before first time")
    ok(float(itp(t[-1] + 10.0)) == float(rf[-1]), "C17 interpolator last after final time")
    mid = 0.5 * (t[3] + t[4])
    ok(close(itp(mid), 0.5 * (rf[3] + rf[4]), 1e-12), "interpolator linear in between")


def compare_fluid(new, ref, p_lo, p_hi, label):
    """m_i, m_scaled_func, alpha, stored table: library vs transcription of the original."""
    ok(close(new.m_i, ref.m_i, 1e-14), f"{label}: m_i")
    p = np.linspace(p_lo, p_hi, 257)
    ok(close(new.m_scaled_func(p), ref.m_scaled_func(p), 1e-14), f"{label}: m_scaled_func")
    ok(close(new.m_scaled_func(p_lo), ref.m_scaled_func(p_lo), 1e-14), f"{label}: m_scaled_func scalar")
    ms = np.asarray(ref.pvt_props["m-scaled"], dtype=float)
    lo, hi = np.nanmin(ms), np.nanmax(ms)
    span = hi - lo
    m = np.concatenate(
        [np.linspace(lo - 0.5 * span, hi + 0.5 * span, 301), ms, [lo, hi, float(ref.m_i)]]
    )
    ok(close(new.alpha(m), ref.alpha(m), 1e-14), f"{label}: alpha in/outside range")
    ok(close(new.alpha(m[:300].reshape(-1, 3)), ref.alpha(m[:300].reshape(-1, 3)), 1e-14), f"{label}: alpha 2-D")
    ok(close(new.alpha(new.m_i), ref.alpha(ref.m_i), 1e-14), f"{label}: alpha(m_i)")
    for col in ("m-scaled", "alpha", "pressure"):
        ok(
            close(np.asarray(new.pvt_props[col], float), np.asarray(ref.pvt_props[col], float), 1e-14),
            f"{label}: stored column {col}",
        )
    ok(type(new.pvt_props) is type(ref.pvt_props), f"{label}: table type kept")
    # lookups outside the pressure table are refused, as before
    ok(raises(ValueError, new.m_scaled_func, p_hi + 1.0), f"{label}: above table refused")
    ok(raises(ValueError, new.m_scaled_func, p_lo - 1.0), f"{label}: below table refused")
    ok(raises(ValueError, new.m_scaled_func, np.array([p_lo, p_hi + 1.0])), f"{label}: array above refused")


def fluid_cases():
    """(label, constructor, reference constructor, table, p_i, p_lo, p_hi, p_f list)."""
    g = gas_table()
    cases = [
        ("gas dict, p_i off node", FlowProperties, ref_fluid, g, 7300.0, 14.7, 12000.0, [900.0, 14.7, 7300.0]),
        ("gas dict, p_i on node", FlowProperties, ref_fluid, g, float(g["pressure"][120]), 14.7, 12000.0, [2000.0]),
        ("gas DataFrame", FlowProperties, ref_fluid, pd.DataFrame(g), 9100.0, 14.7, 12000.0, [1500.0]),
        ("gas descending", FlowProperties, ref_fluid, gas_table(descending=True), 6400.0, 14.7, 12000.0, [700.0]),
        (
            "gas descending DataFrame",
            FlowProperties,
            ref_fluid,
            pd.DataFrame(gas_table(descending=True)),
            6400.0,
            14.7,
            12000.0,
            [3000.0],
        ),
        ("gas negative m", FlowProperties, ref_fluid, gas_table(p_ref=1000.0), 8000.0, 14.7, 12000.0, [300.0, 1000.0]),
        ("alpha column", FlowProperties, ref_fluid, alpha_table(), 6100.0, 50.0, 9000.0, [400.0, 50.0]),
        ("alpha column DataFrame", FlowProperties, ref_fluid, pd.DataFrame(alpha_table()), 5000.0, 50.0, 9000.0, [800.0]),
        ("liquid", FlowPropertiesSimple, ref_fluid_simple, liquid_table(), 7000.0, 100.0, 9000.0, [1000.0, 100.0]),
        ("liquid DataFrame", FlowPropertiesSimple, ref_fluid_simple, pd.DataFrame(liquid_table()), 8999.0, 100.0, 9000.0, [2500.0]),
    ]
    csv = csv_gas_table()
    if csv is not None:
        cases.append(("csv gas", FlowProperties, ref_fluid, csv, 8000.0, 0.0, 12000.0, [100.0, 1000.0]))
    return cases


def run_generic(nx_list=(3, 17, 60)):
    """Checks shared by all change sets: fluid values, fields, recovery, C04/C10/C17."""
    grids = c10_grids()
    probe = np.array([-1.0, 0.0, 0.013, 0.2, 0.39, 1.1, 2.9, 50.0])
    for label, cls, ref_cls, table, p_i, p_lo, p_hi, p_fs in fluid_cases():
        before = copy.deepcopy(table)
        fluid = cls(table, p_i)
        ref = ref_cls(table, p_i)
        # the caller's table is left alone
        ok(list(table.keys()) == list(before.keys()), f"{label}: input columns untouched")
        ok(all(np.array_equal(np.asarray(table[k]), np.asarray(before[k]), equal_nan=True) for k in before), f"{label}: input values untouched")
        compare_fluid(fluid, ref, p_lo, p_hi, label)
        t = time_grid(35, 1.2, seed=7)
        for p_f in [*p_fs, p_i]:
            for nx in nx_list:
                res = SinglePhaseReservoir(nx, p_f, p_i, fluid)
                res.simulate(t)
                want = ref_sim_single(nx, p_f, ref, t)
                ok(close(res.pseudopressure, want, 1e-10), f"{label}: field p_f={p_f} nx={nx}")
                ok(res.time is t or np.array_equal(res.time, t), f"{label}: time stored")
                ok(res.fvf_scale() == 1, f"{label}: fvf_scale")
                ok(close(res.alpha_scaled(want[-1]), ref_alpha_scaled(ref, want[-1]), 1e-13), f"{label}: alpha_scaled")
                ok(close(res.alpha_scaled(fluid.m_i), 1.0, 1e-15), f"{label}: alpha_scaled(m_i) == 1")
                check_c04(res)
                ok(close(res.recovery_factor(), ref_recovery(want, t, nx, 1), 1e-9), f"{label}: recovery")
                ok(res.recovery is res.recovery_factor() or np.array_equal(res.recovery, res.recovery_factor()), "cache")
                if "density" in table:
                    ok(
                        close(res.recovery_factor(density=True), ref_recovery(want, t, nx, 1, ref, True), 1e-9),
                        f"{label}: density recovery p_f={p_f} nx={nx}",
                    )
        # schedules
        p_f = p_fs[0]
        sched = np.linspace(p_i, p_f, len(t)) * (1 + 0.02 * np.sin(np.arange(len(t))))
        sched = np.clip(sched, p_lo, p_i)
        res = SinglePhaseReservoir(24, p_f, p_i, fluid)
        res.simulate(t, sched)
        ok(close(res.pseudopressure, ref_sim_single(24, p_f, ref, t, sched), 1e-10), f"{label}: schedule field")
        check_c04(res, sched)
        ok(float(res.pressure_fracface) == p_f, f"{label}: schedule does not stick")
        # two reservoirs sharing one fluid do not disturb one another
        r1 = SinglePhaseReservoir(12, p_f, p_i, fluid)
        r2 = SinglePhaseReservoir(31, 0.5 * (p_f + p_i), p_i, fluid)
        r1.simulate(t)
        r2.simulate(grids["C"])
        r1b = SinglePhaseReservoir(12, p_f, p_i, cls(table, p_i))
        r1b.simulate(t)
        ok(np.array_equal(r1.pseudopressure, r1b.pseudopressure), f"{label}: shared fluid")
        ok(np.array_equal(r1.recovery_factor(), r1b.recovery_factor()), f"{label}: shared fluid recovery")
        make = lambda: SinglePhaseReservoir(14, p_f, p_i, fluid)  # noqa: E731
        check_c10(make, C10_HISTORIES, grids, probe)
        if "density" in table:
            check_c10(make, C10_HISTORIES_DENSITY, grids, probe)
        check_c17(make, True)

    # ideal reservoirs, fluid=None
    t = time_grid(35, 1.2, seed=11)
    for nx in (3, 10, 75):
        for p_f, p_i in ((1000.0, 8000.0), (0.0, 5000.0), (4000.0, 4000.0)):
            res = IdealReservoir(nx, p_f, p_i, None)
            res.simulate(t)
            want = ref_sim_ideal(nx, t)
            ok(close(res.pseudopressure, want, 1e-11), f"ideal field nx={nx}")
            check_c04(res)
            ok(res.fvf_scale() == 1 - p_f / p_i, "ideal fvf_scale")
            ok(close(res.recovery_factor(), ref_recovery(want, t, nx, 1 - p_f / p_i), 1e-10), "ideal recovery")
            ok(np.array_equal(res.alpha_scaled(want[3]), np.ones(nx)), "ideal alpha_scaled")
            ok(raises(AttributeError, res.recovery_factor, None, True), "ideal density recovery needs a fluid")
    make = lambda: IdealReservoir(16, 1000.0, 9000.0, None)  # noqa: E731
    check_c10(make, C10_HISTORIES, grids, probe)
    check_c17(make, False)
    # validation of tables
    ok(raises(ValueError, FlowProperties, {"pressure": np.arange(3.0), "alpha": np.ones(3)}, 1.0), "missing pseudopressure")
    g = gas_table(20)
    for col in ("pressure", "pseudopressure", "viscosity", "z-factor", "compressibility"):
        bad = {k: v for k, v in g.items() if k != col}
        ok(raises(ValueError, FlowProperties, bad, 5000.0), f"missing {col} rejected")
        ok(raises(ValueError, FlowProperties, pd.DataFrame(bad), 5000.0), f"missing {col} rejected (DataFrame)")
    for col in ("pressure", "viscosity", "compressibility"):
        bad = {k: v for k, v in liquid_table(10).items() if k != col}
        ok(raises(ValueError, FlowPropertiesSimple, bad, 5000.0), f"liquid missing {col} rejected")
    # initial pressure outside the table
    ok(raises(ValueError, FlowProperties, g, 12001.0), "p_i above table")
    ok(raises(ValueError, FlowProperties, g, 1.0), "p_i below table")
    ok(raises(ValueError, FlowPropertiesSimple, liquid_table(), 9500.0), "liquid p_i above table")
    ok(raises(ValueError, FlowProperties, alpha_table(), 10.0), "alpha table p_i below table")
    # a table in the short form warns that the user's diffusivity is used
    with warnings.catch_warnings(record=True) as w:
        warnings.simplefilter("always")
        FlowProperties(alpha_table(), 5000.0)
    ok(any(issubclass(x.category, RuntimeWarning) for x in w), "alpha column warns")
    with warnings.catch_warnings(record=True) as w:
        warnings.simplefilter("always")
        FlowProperties(gas_table(), 5000.0)
    ok(not any(issubclass(x.category, RuntimeWarning) for x in w), "full table does not warn")


def run_specific():
    """Change 4: recovery_factor split up; density lookup and recovery interpolator on numpy."""
    t = time_grid(40, 2.5, seed=31)
    probe = np.concatenate([[-5.0, -1e-9, 0.0, 1e-12], np.random.default_rng(1).uniform(-0.5, 3.5, 300), t, [2.5, 2.5 + 1e-9, 99.0]])
    tables = [
        ("gas", FlowProperties, ref_fluid, gas_table(), 7300.0, 800.0),
        ("gas DataFrame descending", FlowProperties, ref_fluid, pd.DataFrame(gas_table(descending=True)), 9000.0, 14.7),
        ("gas negative m", FlowProperties, ref_fluid, gas_table(p_ref=2000.0), 8000.0, 300.0),
        ("alpha column", FlowProperties, ref_fluid, alpha_table(), 6100.0, 50.0),
        ("liquid", FlowPropertiesSimple, ref_fluid_simple, liquid_table(), 7000.0, 100.0),
    ]
    for label, cls, rcls, tab, p_i, p_f in tables:
        fluid, ref = cls(tab, p_i), rcls(tab, p_i)
        for shift in (0.0, 17.25, -3.0):
            res = SinglePhaseReservoir(33, p_f, p_i, fluid)
            res.simulate(t + shift)
            pp = res.pseudopressure
            # flux based
            rf = np.array(res.recovery_factor(), copy=True)
            ok(np.array_equal(rf, ref_recovery(pp, t + shift, 33, 1)), f"{label}: flux recovery identical")
            ok(np.array_equal(res.recovery_factor(True), rf), f"{label}: positional time argument only switches the guard off")
            ok(np.array_equal(res.recovery_factor(t[:5]), rf), f"{label}: time argument does not select rows (as before)")
            want_itp = interp1d(t + shift, rf, bounds_error=False, fill_value=(0, rf[-1]))
            itp = res.recovery_factor_interpolator()
            ok(np.array_equal(itp(probe + shift), want_itp(probe + shift)), f"{label}: interpolator identical shift={shift}")
            ok(np.array_equal(itp(list(probe[:7])), want_itp(list(probe[:7]))), f"{label}: list input")
            ok(itp(probe[:12].reshape(3, 4)).shape == (3, 4), f"{label}: shape kept")
            ok(np.ndim(itp(0.3 + shift)) == 0 and float(itp(0.3 + shift)) == float(want_itp(0.3 + shift)), f"{label}: scalar")
            ok(float(itp(t[0] + shift - 1e-6)) == 0.0 and float(itp(t[-1] + shift + 1e-6)) == rf[-1], f"{label}: fill values")
            ok(float(itp(t[0] + shift)) == rf[0] and float(itp(t[-1] + shift)) == rf[-1], f"{label}: end points")
            ok(np.isnan(itp(np.nan)), f"{label}: nan passes through")
            # density based
            rfd = np.array(res.recovery_factor(density=True), copy=True)
            ok(close(rfd, ref_recovery(pp, t + shift, 33, 1, ref, True), 1e-13), f"{label}: density recovery equal to rounding")
            ok(np.array_equal(res.recovery, rfd, equal_nan=True), f"{label}: cache holds the latest call")
            itp_d = res.recovery_factor_interpolator()
            ok(np.array_equal(itp_d(t + shift), rfd, equal_nan=True), f"{label}: interpolator follows latest recovery call")
            # interpolators are snapshots, like the interp1d objects were
            res.simulate(time_grid(12, 0.7, seed=4))
            ok(np.array_equal(itp(probe + shift), want_itp(probe + shift)), f"{label}: old interpolator unaffected by a new run")
            ok("recovery" not in res.__dict__, f"{label}: new run drops the cached recovery")
            ok(len(res.recovery_factor_interpolator()(res.time)) == 12, f"{label}: new interpolator on the new grid")
        # fields beyond the tabulated m-scaled range: linear extrapolation as before
        res = SinglePhaseReservoir(8, p_f, p_i, fluid)
        res.simulate(t)
        ms = np.asarray(ref.pvt_props["m-scaled"], float)
        lo, hi = np.nanmin(ms), np.nanmax(ms)
        res.pseudopressure = np.random.default_rng(8).uniform(lo - 0.3 * (hi - lo), hi + 0.3 * (hi - lo), (len(t), 8))
        ok(
            close(res.recovery_factor(density=True), ref_recovery(res.pseudopressure, t, 8, 1, ref, True), 1e-12),
            f"{label}: density lookup extrapolates like the original",
        )
    # user's time array modified in place after the interpolator was made
    fluid = FlowProperties(gas_table(), 7300.0)
    res = SinglePhaseReservoir(20, 900.0, 7300.0, fluid)
    tt = t.copy()
    res.simulate(tt)
    itp = res.recovery_factor_interpolator()
    v = np.array(itp(probe), copy=True)
    tt += 100.0
    ok(np.array_equal(itp(probe), v), "interpolator keeps its own copy of the times")
    # guards
    fresh = SinglePhaseReservoir(20, 900.0, 7300.0, fluid)
    ok(raises(RuntimeError, fresh.recovery_factor), "RuntimeError before simulate")
    ok(raises(RuntimeError, fresh.recovery_factor, None, True), "RuntimeError before simulate (density)")
    ok(raises(RuntimeError, fresh.recovery_factor_interpolator), "RuntimeError before simulate (interpolator)")
    ok(raises(AttributeError, fresh.recovery_factor, t), "explicit time before simulate: AttributeError as before")
    ok("recovery" not in fresh.__dict__, "failed calls cache nothing")
    nodens = {k: v for k, v in gas_table().items() if k != "density"}
    res = SinglePhaseReservoir(20, 900.0, 7300.0, FlowProperties(nodens, 7300.0))
    res.simulate(t)
    rf = np.array(res.recovery_factor(), copy=True)
    ok(raises(KeyError, res.recovery_factor, None, True), "no density column: KeyError as before")
    ok(np.array_equal(res.recovery, rf), "failed density call leaves the cached recovery")
    ideal = IdealReservoir(20, 900.0, 7300.0)
    ideal.simulate(t)
    ok(raises(AttributeError, ideal.recovery_factor, None, True), "ideal reservoir without fluid")
    ok("recovery" not in ideal.__dict__, "nothing cached by the failed call")
    want = ref_recovery(ideal.pseudopressure, t, 20, 1 - 900.0 / 7300.0)
    ok(np.array_equal(ideal.recovery_factor(), want), "ideal recovery identical")
    # p_f == p_i for an ideal reservoir: fvf_scale 0 -> zero recovery, flat interpolator
    flat = IdealReservoir(10, 5000.0, 5000.0)
    flat.simulate(t)
    ok(np.array_equal(flat.recovery_factor_interpolator()(probe), np.zeros_like(probe)), "zero drawdown")


if __name__ == "__main__":
    run_generic()
    run_specific()
    print("ok", N_CHECKS, "checks")
