"""Check of property C10 (results always reflect the most recent simulation).

Run as:  PYTHONPATH=<checkout>/src /venv/bin/python equiv.py

The expectations are derived from the property itself:
  * a reservoir that went through a history of calls must show the same stored
    time / pseudopressure, the same values from every recovery call made after
    the latest simulation and the same interpolator output as a FRESH reservoir
    on which only the latest simulation and the recovery calls after it ran;
  * repeating a call returns the same result;
and from an independent re-statement (in this file) of the numerical scheme and
of the recovery formulae, so that the numbers themselves are pinned as well.
"""

from __future__ import annotations

import itertools
import os
import random
import sys
import warnings

import numpy as np
import pandas as pd
from scipy import integrate, interpolate, sparse

warnings.simplefilter("ignore")

import bluebonnet  # noqa: E402
from bluebonnet.flow import (  # noqa: E402
    FlowProperties,
    IdealReservoir,
    SinglePhaseReservoir,
)

RTOL = 1e-9  # "rounding level"
P_I = 8000.0
NX = 14
N_CHECKS = 0


def ok(cond, what):
    global N_CHECKS
    N_CHECKS += 1
    if not cond:
        print("FAIL:", what)
        sys.exit(1)


def same(a, b, what, exact=False):
    a = np.asarray(a, dtype=float)
    b = np.asarray(b, dtype=float)
    ok(a.shape == b.shape, f"{what}: shapes {a.shape} vs {b.shape}")
    if exact:
        ok(np.array_equal(a, b, equal_nan=True), f"{what}: not identical")
    else:
        scale = max(1.0, float(np.nanmax(np.abs(b)))) if b.size and np.isfinite(b).any() else 1.0
        ok(
            np.allclose(a, b, rtol=RTOL, atol=RTOL * scale, equal_nan=True),
            f"{what}: differ by {np.nanmax(np.abs(a - b)) if a.size else 0}",
        )


def raises(exc, fn, what):
    try:
        fn()
    except exc as e:
        ok(True, what)
        return e
    except BaseException as e:  # noqa: BLE001
        ok(False, f"{what}: expected {exc.__name__}, got {type(e).__name__}: {e}")
    ok(False, f"{what}: expected {exc.__name__}, nothing raised")
    return None


# --------------------------------------------------------------------------- fluid
def _pvt_table():
    root = os.path.dirname(os.path.dirname(os.path.dirname(os.path.abspath(bluebonnet.__file__))))
    path = os.path.join(root, "tests", "data", "pvt_gas.csv")
    if os.path.exists(path):
        return pd.read_csv(path).rename(
            columns={
                "P": "pressure",
                "Z-Factor": "z-factor",
                "Cg": "compressibility",
                "Viscosity": "viscosity",
                "Density": "density",
            }
        )
    # synthetic, smooth, gas-like table
    p = np.linspace(0.0, 12000.0, 601)
    z = 1.0 - 2e-5 * p + 3e-9 * p**2
    mu = 0.016 + 1.5e-6 * p
    cg = 1.0 / (p + 15.0)
    rho = 0.03 + 0.002 * p / z
    m = integrate.cumulative_trapezoid(2 * p / (mu * z), p, initial=0)
    return pd.DataFrame(
        {
            "pressure": p,
            "z-factor": z,
            "compressibility": cg,
            "viscosity": mu,
            "density": rho,
            "pseudopressure": m,
        }
    )


PVT = _pvt_table()
FLUID = FlowProperties(PVT, P_I)


# ------------------------------------------------- independent statement of the maths
def _matrix(k):
    main = 1.0 + 2 * k
    main[-1] = 1.0 + k[-1]
    return sparse.diags([-k[1:], main, -k[:-1]], [-1, 0, 1], format="csr")


def ref_ideal(nx, time):
    dx2 = (1.0 / (nx - 1)) ** 2
    pp = np.empty((len(time), nx))
    pp[0] = 1.0
    for i in range(len(time) - 1):
        k = (time[i + 1] - time[i]) / dx2 * np.ones(nx)
        pp[i + 1] = sparse.linalg.spsolve(_matrix(k), pp[i])
    return pp


def ref_single(nx, fluid, pf, time, schedule=None):
    dx2 = (1.0 / nx) ** 2
    sched = np.full(len(time), pf) if schedule is None else schedule
    m_i = fluid.m_i
    m_f = fluid.m_scaled_func(sched)
    a0 = fluid.alpha(m_i)
    pp = np.empty((len(time), nx))
    pp[0] = m_i
    pp[0, 0] = m_f[0]
    for i in range(len(time) - 1):
        r = (time[i + 1] - time[i]) / dx2
        b = np.minimum(pp[i].copy(), m_i)
        b[0] = m_f[i] + fluid.alpha(m_f[i]) / a0 * m_f[i] * r
        k = r * fluid.alpha(b) / a0
        pp[i + 1] = sparse.linalg.spsolve(_matrix(k), b)
    return pp


def ref_recovery(res, time, pp, density):
    if density:
        f = interpolate.interp1d(
            res.fluid.pvt_props["m-scaled"], res.fluid.pvt_props["density"], fill_value="extrapolate"
        )
        mass = f(pp).sum(axis=1)
        cum = 1.0 - mass / mass[0]
    else:
        rate = (-pp[:, 2] + 4 * pp[:, 1] - 3 * pp[:, 0]) * (res.nx - 1.0) * 0.5
        cum = integrate.cumulative_trapezoid(rate, time, initial=0)
    scale = 1 if isinstance(res, SinglePhaseReservoir) else 1 - res.pressure_fracface / res.pressure_initial
    return cum * scale


def ref_interp(time, rec, tq):
    return interpolate.interp1d(time, rec, bounds_error=False, fill_value=(0, rec[-1]))(tq)


def ref_pp(res, time, schedule=None):
    if isinstance(res, SinglePhaseReservoir):
        return ref_single(res.nx, res.fluid, res.pressure_fracface, time, schedule)
    return ref_ideal(res.nx, time)


# ----------------------------------------------------------------------- histories
GRID_A = np.linspace(0.0, 1.2, 7) ** 2
GRID_B = np.linspace(0.0, 2.0, 7)  # same length as A
GRID_C = np.array([0.0, 0.01, 0.05, 0.3, 2.5])  # other length
GRIDS = {"A": GRID_A, "B": GRID_B, "C": GRID_C}
OPS = ("simA", "simB", "simC", "rf", "rfd", "interp")


def query_points(time):
    lo, hi = float(np.min(time)), float(np.max(time))
    span = (hi - lo) or 1.0
    return np.concatenate([[lo - span, lo], lo + span * np.array([0.07, 0.31, 0.5, 0.93]), [hi, hi + span]])


def apply(res, op):
    """Apply one call; return ('kind', value)."""
    if op.startswith("sim"):
        res.simulate(GRIDS[op[3:]].copy())
        return ("sim", None)
    try:
        if op == "rf":
            return ("rf", np.array(res.recovery_factor()))
        if op == "rfd":
            return ("rf", np.array(res.recovery_factor(density=True)))
        f = res.recovery_factor_interpolator()
        return ("interp", (f, np.array(f(query_points(res.time)))))
    except RuntimeError as e:
        return ("err", str(e))


def reduce_history(history):
    """The latest simulation and the recovery calls made after it."""
    last = max((i for i, op in enumerate(history) if op.startswith("sim")), default=None)
    if last is None:
        return None, []
    return last, [(j, op) for j, op in enumerate(history) if j >= last and op != "interp"]


def check_history(make, history, label):
    """The property, for one history on one reservoir object."""
    res = make()
    out = [apply(res, op) for op in history]
    last, reduced = reduce_history(history)
    if last is None:
        ok(all(kind == "err" for kind, _ in out), f"{label}: reads before any simulate must raise")
        ok(not hasattr(res, "time") and not hasattr(res, "pseudopressure"), f"{label}: no results yet")
        return
    ok(all(kind != "err" for kind, _ in out[last:]), f"{label}: no read may fail after a simulate")
    # stored results
    fresh = make()
    fresh_out = {j: apply(fresh, op) for j, op in reduced}
    same(res.time, fresh.time, f"{label}: time", exact=True)
    same(res.pseudopressure, fresh.pseudopressure, f"{label}: pseudopressure")
    grid = GRIDS[history[last][3:]]
    same(res.time, grid, f"{label}: time is the latest grid", exact=True)
    same(res.pseudopressure, ref_pp(res, grid), f"{label}: pseudopressure vs restated scheme")
    # every recovery value returned after the latest simulate
    for j, op in reduced[1:]:
        same(out[j][1], fresh_out[j][1], f"{label}: value of call {j} ({op})")
        same(out[j][1], ref_recovery(res, grid, res.pseudopressure, op == "rfd"), f"{label}: call {j} vs formula")
    # interpolators obtained after the latest simulate: the fresh object has seen
    # only the recovery calls made before that point
    tq = query_points(grid)
    for j in range(last + 1, len(history) + 1):
        if j < len(history) and history[j] != "interp":
            continue
        f2 = make()
        for _, op in reduced:
            if _ < j:
                apply(f2, op)
        expected = f2.recovery_factor_interpolator()(tq)
        if j < len(history):
            same(out[j][1][1], expected, f"{label}: interpolator of call {j}")
            # an interpolator kept by the caller does not change afterwards
            same(out[j][1][0](tq), out[j][1][1], f"{label}: kept interpolator {j} is stable", exact=True)
        else:
            got = res.recovery_factor_interpolator()(tq)
            same(got, expected, f"{label}: interpolator after the history")
            # which recovery does it stand for?  the latest recovery call, else the default one
            rec_ops = [op for _, op in reduced[1:]]
            dens = bool(rec_ops) and rec_ops[-1] == "rfd"
            # (an earlier interpolator call computes and keeps the default recovery)
            if not rec_ops:
                dens = False
            rec = ref_recovery(res, grid, res.pseudopressure, dens)
            same(got, ref_interp(grid, rec, tq), f"{label}: interpolator vs formula")
            same(res.recovery, rec, f"{label}: stored recovery")
    # interpolators kept from before the latest simulate still give what they gave
    for j in range(last):
        if out[j][0] == "interp":
            f, vals = out[j][1]
            prev_grid = GRIDS[[op for op in history[:j] if op.startswith("sim")][-1][3:]]
            same(f(query_points(prev_grid)), vals, f"{label}: old interpolator {j} unchanged", exact=True)
    # repeating a call gives the same result
    a = res.recovery_factor()
    a = np.array(a)
    same(res.recovery_factor(), a, f"{label}: repeat rf", exact=True)
    d = np.array(res.recovery_factor(density=True))
    same(res.recovery_factor(density=True), d, f"{label}: repeat rf density", exact=True)
    same(res.recovery_factor(), a, f"{label}: rf after density", exact=True)
    g1 = res.recovery_factor_interpolator()(tq)
    same(res.recovery_factor_interpolator()(tq), g1, f"{label}: repeat interpolator", exact=True)
    same(g1, ref_interp(grid, a, tq), f"{label}: interpolator follows latest recovery call")
    same(res.time, grid, f"{label}: reads leave time alone", exact=True)
    same(res.pseudopressure, fresh.pseudopressure, f"{label}: reads leave pseudopressure alone")


def makers(pf=1000.0):
    return {
        "ideal": lambda: IdealReservoir(NX, pf, P_I, FLUID),
        "single": lambda: SinglePhaseReservoir(NX, pf, P_I, FLUID),
    }


def run_histories(max_len=4, n_random=60, random_len=9, seed=41):
    rng = random.Random(seed)
    for name, make in makers().items():
        for n in range(1, max_len + 1):
            for hist in itertools.product(OPS, repeat=n):
                check_history(make, hist, f"{name} {'/'.join(hist)}")
        for _ in range(n_random):
            hist = tuple(rng.choice(OPS) for _ in range(random_len))
            check_history(make, hist, f"{name} {'/'.join(hist)}")


# ------------------------------------------------------------------- special grids
SPECIAL_GRIDS = {
    "integer dtype": np.array([0, 1, 2, 5, 9]),
    "shifted": np.array([10.0, 10.1, 10.4, 11.0, 12.5]),
    "negative": np.array([-3.0, -2.5, -1.0, 0.0, 0.5, 2.0]),
    "single point": np.array([0.5]),
    "two points": np.array([0.0, 0.3]),
    "non-uniform": np.array([0.0, 1e-4, 1e-2, 0.011, 0.5, 3.0, 3.0001]),
}
SCHEDULES = {
    "constant": lambda n: np.full(n, 1000.0),
    "shut-in then build-up above p_i": lambda n: np.r_[np.full(n // 2, 2000.0), np.full(n - n // 2, 8000.0)][:n]
    + np.r_[np.zeros(n - 1), 900.0],
    "ramp": lambda n: np.linspace(7000.0, 500.0, n),
    "at p_i": lambda n: np.full(n, P_I),
}


def run_special_grids(pf_values=(1000.0, P_I)):
    for pf in pf_values:
        for name, make in makers(pf).items():
            for gname, grid in SPECIAL_GRIDS.items():
                scheds = [None]
                if name == "single":
                    scheds += [s(len(grid)) for s in SCHEDULES.values()]
                for sched in scheds:
                    label = f"{name} pf={pf} grid={gname} sched={'no' if sched is None else sched.tolist()}"
                    res = make()
                    # some unrelated earlier activity on the same object
                    res.simulate(GRID_A.copy())
                    res.recovery_factor(density=True)
                    old = res.recovery_factor_interpolator()
                    old_vals = old(query_points(GRID_A))
                    args = (grid.copy(),) if sched is None else (grid.copy(), sched.copy())
                    res.simulate(*args)
                    ok(not hasattr(res, "recovery"), f"{label}: no recovery carried over")
                    ok(res.pressure_fracface == pf, f"{label}: schedule applies to that run only")
                    fresh = make()
                    fresh.simulate(*args)
                    same(res.time, grid, f"{label}: time", exact=True)
                    ok(np.asarray(res.time).dtype == grid.dtype, f"{label}: dtype of time kept")
                    same(res.pseudopressure, fresh.pseudopressure, f"{label}: pseudopressure")
                    same(res.pseudopressure, ref_pp(res, grid, sched), f"{label}: pseudopressure vs scheme")
                    tq = query_points(grid)
                    same(
                        res.recovery_factor_interpolator()(tq),
                        fresh.recovery_factor_interpolator()(tq),
                        f"{label}: interpolator without a recovery call",
                    )
                    for dens in (False, True, False):
                        got = np.array(res.recovery_factor(density=dens))
                        same(got, fresh.recovery_factor(density=dens), f"{label}: rf density={dens}")
                        same(got, ref_recovery(res, grid, res.pseudopressure, dens), f"{label}: rf vs formula")
                        same(res.recovery, got, f"{label}: stored recovery", exact=True)
                        same(
                            res.recovery_factor_interpolator()(tq),
                            ref_interp(grid, got, tq),
                            f"{label}: interpolator density={dens}",
                        )
                    same(old(query_points(GRID_A)), old_vals, f"{label}: kept interpolator", exact=True)


def run_shared_fluid():
    """Several objects sharing one fluid do not see each other's results."""
    a = SinglePhaseReservoir(NX, 1000.0, P_I, FLUID)
    b = SinglePhaseReservoir(NX, 3000.0, P_I, FLUID)
    c = IdealReservoir(NX, 1000.0, P_I, FLUID)
    a.simulate(GRID_A.copy())
    ra = np.array(a.recovery_factor())
    b.simulate(GRID_C.copy())
    c.simulate(GRID_B.copy())
    rb = np.array(b.recovery_factor(density=True))
    rc = np.array(c.recovery_factor())
    same(a.recovery_factor(), ra, "shared fluid: a unchanged", exact=True)
    same(a.recovery, ra, "shared fluid: a.recovery", exact=True)
    same(b.recovery, rb, "shared fluid: b.recovery", exact=True)
    same(c.recovery, rc, "shared fluid: c.recovery", exact=True)
    same(a.time, GRID_A, "shared fluid: a.time", exact=True)
    same(b.time, GRID_C, "shared fluid: b.time", exact=True)
    same(a.recovery_factor_interpolator()(0.4), ref_interp(GRID_A, ra, 0.4), "shared fluid: a interp")
    same(b.recovery_factor_interpolator()(0.4), ref_interp(GRID_C, rb, 0.4), "shared fluid: b interp")


class Boom(Exception):
    pass


def failing_fluid(after):
    """A fluid whose diffusivity raises after `after` evaluations."""

    class F:
        def __init__(self):
            self.m_i = FLUID.m_i
            self.m_scaled_func = FLUID.m_scaled_func
            self.pvt_props = FLUID.pvt_props
            self.calls = 0
            self.armed = True

        def alpha(self, m):
            self.calls += 1
            if self.armed and self.calls > after:
                raise Boom("diffusivity failed")
            return FLUID.alpha(m)

    return F()


# ===================================================================== change b4
# recovery_factor_interpolator returns an immutable RecoveryInterpolator that owns
# private copies of its data and is reused while time and recovery are unchanged;
# recovery_factor hands out the caller's own array and keeps a read-only one.
# Reading relied on: "the interpolator's output" is what calling it returns; the
# statement says nothing about its type, nor about array identity.
def run_interpolator():
    import copy
    import pickle

    from bluebonnet.flow.reservoir import RecoveryInterpolator

    for name, make in makers().items():
        res = make()
        res.simulate(GRID_A.copy())
        tq = query_points(GRID_A)
        f_default = res.recovery_factor_interpolator()
        ok(isinstance(f_default, RecoveryInterpolator), f"b4 {name}: type")
        rf = res.recovery_factor()
        same(res.recovery, rf, f"b4 {name}: stored recovery", exact=True)
        same(f_default(tq), ref_interp(GRID_A, rf, tq), f"b4 {name}: default interpolator", exact=True)
        # scalar, list and 2-d arguments behave like scipy's interpolator
        ref = interpolate.interp1d(GRID_A, rf, bounds_error=False, fill_value=(0, rf[-1]))
        for arg in (0.3, [0.1, 0.2], np.array([[0.1, 5.0], [-1.0, np.nan]]), np.array([])):
            got, want = f_default(arg), ref(arg)
            ok(type(got) is type(want) and np.shape(got) == np.shape(want), f"b4 {name}: result shape for {arg!r}")
            same(got, want, f"b4 {name}: value for {arg!r}", exact=True)

        # reuse while nothing changed; a new object as soon as the recovery is another one
        ok(res.recovery_factor_interpolator() is f_default, f"b4 {name}: reused")
        res.recovery_factor()
        ok(res.recovery_factor_interpolator() is f_default, f"b4 {name}: reused after an identical recovery call")
        rd = res.recovery_factor(density=True)
        f_density = res.recovery_factor_interpolator()
        ok(f_density is not f_default, f"b4 {name}: not reused across recovery variants")
        same(f_density(tq), ref_interp(GRID_A, rd, tq), f"b4 {name}: density interpolator", exact=True)
        same(f_default(tq), ref_interp(GRID_A, rf, tq), f"b4 {name}: first one unchanged", exact=True)
        res.recovery_factor()
        same(res.recovery_factor_interpolator()(tq), f_default(tq), f"b4 {name}: back to default", exact=True)

        # the caller cannot spoil anything through what it was given
        rf_mine = res.recovery_factor()
        keep = np.array(rf_mine)
        rf_mine[:] = 99.0
        same(res.recovery, keep, f"b4 {name}: stored recovery is not the returned array", exact=True)
        same(res.recovery_factor_interpolator()(tq), ref_interp(GRID_A, keep, tq), f"b4 {name}: interp unaffected")
        raises(ValueError, lambda: res.recovery.__setitem__(0, 1.0), f"b4 {name}: stored recovery read-only")
        f = res.recovery_factor_interpolator()
        raises(ValueError, lambda: f.time.__setitem__(0, 1.0), f"b4 {name}: interpolator time read-only")
        raises(ValueError, lambda: f.recovery.__setitem__(0, 1.0), f"b4 {name}: interpolator data read-only")
        raises(AttributeError, lambda: setattr(f, "recovery", None), f"b4 {name}: immutable")
        raises(AttributeError, lambda: setattr(f, "fill_value", 3), f"b4 {name}: immutable (2)")
        raises(AttributeError, lambda: delattr(f, "time"), f"b4 {name}: immutable (3)")
        same(f(tq), ref_interp(GRID_A, keep, tq), f"b4 {name}: still the same after the attempts", exact=True)

        # the same grid object with other numbers, simulated again: nothing is reused
        t = GRID_A.copy()
        res = make()
        res.simulate(t)
        res.recovery_factor()
        f1 = res.recovery_factor_interpolator()
        v1 = f1(tq)
        t *= 2.0  # the caller rescales its own array ...
        f1b = res.recovery_factor_interpolator()  # ... which the reservoir still refers to
        same(f1(tq), v1, f"b4 {name}: kept interpolator owns its time axis", exact=True)
        same(f1b(tq * 2), ref_interp(GRID_A * 2, res.recovery, tq * 2), f"b4 {name}: no reuse for other times")
        res.simulate(t)
        fresh = make()
        fresh.simulate(GRID_A * 2.0)
        ok(not hasattr(res, "recovery"), f"b4 {name}: recovery dropped")
        f2 = res.recovery_factor_interpolator()
        ok(f2 is not f1 and f2 is not f1b, f"b4 {name}: new interpolator for the new run")
        same(f2(tq * 2), fresh.recovery_factor_interpolator()(tq * 2), f"b4 {name}: new run values")
        same(f1(tq), v1, f"b4 {name}: old interpolator keeps the old run", exact=True)

        # same length, same recovery call, other grid: A then B
        res = make()
        res.simulate(GRID_A.copy())
        fa = res.recovery_factor_interpolator()
        va = fa(tq)
        res.simulate(GRID_B.copy())
        fb = res.recovery_factor_interpolator()
        fresh = make()
        fresh.simulate(GRID_B.copy())
        same(fb(query_points(GRID_B)), fresh.recovery_factor_interpolator()(query_points(GRID_B)), f"b4 {name}: B")
        same(fa(tq), va, f"b4 {name}: A kept", exact=True)
        # simulating the very same grid again gives an equal run; reuse or not, values agree
        res.simulate(GRID_B.copy())
        same(
            res.recovery_factor_interpolator()(query_points(GRID_B)),
            fb(query_points(GRID_B)),
            f"b4 {name}: B again",
        )

        # hand-assigned recovery / time are honoured exactly as before
        res = make()
        res.simulate(GRID_C.copy())
        res.recovery_factor()
        g1 = res.recovery_factor_interpolator()
        res.recovery = np.linspace(0, 1, len(GRID_C))
        g2 = res.recovery_factor_interpolator()
        same(g2(query_points(GRID_C)), ref_interp(GRID_C, res.recovery, query_points(GRID_C)), f"b4 {name}: assigned")
        ok(g2 is not g1, f"b4 {name}: assigned recovery is another interpolator")

        # NaN in the recovery (NaN in a schedule) does not defeat the reuse test
        if name == "single":
            res = make()
            sched = np.array([1000.0, 2000.0, np.nan, 3000.0, 1000.0])
            res.simulate(GRID_C.copy(), sched)
            r = res.recovery_factor()
            ok(np.isnan(r).any(), "b4: NaN expected in this recovery")
            h1 = res.recovery_factor_interpolator()
            ok(res.recovery_factor_interpolator() is h1, "b4: reused with NaN")
            same(h1(query_points(GRID_C)), ref_interp(GRID_C, r, query_points(GRID_C)), "b4: NaN values", exact=True)

        # copies
        res = make()
        res.simulate(GRID_A.copy())
        res.recovery_factor(density=True)
        f = res.recovery_factor_interpolator()
        for clone in (copy.deepcopy(res), pickle.loads(pickle.dumps(res)), copy.copy(res)):
            same(clone.recovery_factor_interpolator()(tq), f(tq), f"b4 {name}: clone interpolator", exact=True)
            clone.simulate(GRID_C.copy())
            fr = make()
            fr.simulate(GRID_C.copy())
            same(
                clone.recovery_factor_interpolator()(query_points(GRID_C)),
                fr.recovery_factor_interpolator()(query_points(GRID_C)),
                f"b4 {name}: clone after new run",
            )
            ok(res.recovery_factor_interpolator() is f, f"b4 {name}: original keeps its interpolator")
        for g in (copy.deepcopy(f), pickle.loads(pickle.dumps(f)), copy.copy(f)):
            same(g(tq), f(tq), f"b4 {name}: copied interpolator", exact=True)

    # failing simulate calls leave the previous run, its recovery and interpolator alone
    res = SinglePhaseReservoir(NX, 1000.0, P_I, FLUID)
    res.simulate(GRID_A.copy())
    rd = res.recovery_factor(density=True)
    f = res.recovery_factor_interpolator()
    raises(ValueError, lambda: res.simulate(GRID_B.copy(), np.full(2, 1e3)), "b4: wrong length")
    res.fluid = failing_fluid(6)
    raises(Boom, lambda: res.simulate(GRID_B.copy()), "b4: fluid fails")
    res.fluid = FLUID
    same(res.time, GRID_A, "b4: time kept", exact=True)
    same(res.recovery, rd, "b4: recovery kept", exact=True)
    ok(res.recovery_factor_interpolator() is f, "b4: interpolator kept")
    res.simulate(GRID_B.copy())
    ok("recovery" not in vars(res) and "_interpolator" not in vars(res), "b4: derived data dropped by simulate")
    raises(RuntimeError, SinglePhaseReservoir(NX, 1000.0, P_I, FLUID).recovery_factor_interpolator, "b4: needs simulate")


if __name__ == "__main__":
    run_histories()
    run_special_grids()
    run_shared_fluid()
    run_interpolator()
    print(f"OK ({N_CHECKS} checks)")
