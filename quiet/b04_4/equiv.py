"""Evidence that property C04 holds for the changed library (change b4).

Every stored time level must be the implicit backward-Euler update of the
previous one.  Nothing here is compared with an older version of the code: the
expected system (matrix and right-hand side) is rebuilt from the stored
``time``/``pseudopressure`` arrays and ``alpha_scaled`` exactly as the property
states it, and the stored new level has to satisfy it to rounding level.

Run as:  PYTHONPATH=<checkout>/src /venv/bin/python equiv.py
"""

from __future__ import annotations

import os
import sys
import warnings

# the dense reference solves are tiny; BLAS threading only slows them down
for _var in ("OPENBLAS_NUM_THREADS", "OMP_NUM_THREADS", "MKL_NUM_THREADS"):
    os.environ.setdefault(_var, "1")

import numpy as np  # noqa: E402
from scipy.integrate import cumulative_trapezoid  # noqa: E402

warnings.simplefilter("ignore")

from bluebonnet.flow import (  # noqa: E402
    FlowProperties,
    IdealReservoir,
    SinglePhaseReservoir,
    TwoPhaseReservoir,
)
from bluebonnet.flow import reservoir as reservoir_module  # noqa: E402

EPS = np.finfo(float).eps
CHANGE = "b4"
FAILURES: list[str] = []
STATS = {
    "steps": 0,
    "worst_componentwise": 0.0,
    "worst_backward": 0.0,
    "worst_vs_dense": 0.0,
    "worst_normwise": 0.0,
    "worst_normwise_ratio": 0.0,
}


# --------------------------------------------------------------------------
# fluids (synthetic, self-contained)
# --------------------------------------------------------------------------
def gas_table(n=240, p_max=12_000.0):
    pressure = np.linspace(14.7, p_max, n)
    z = 1.0 - 6.0e-5 * pressure + 6.5e-9 * pressure**2
    viscosity = 0.012 + 1.6e-6 * pressure + 4.0e-11 * pressure**2
    compressibility = 1.0 / pressure + (6.0e-5 - 1.3e-8 * pressure) / z
    pseudopressure = cumulative_trapezoid(2 * pressure / (viscosity * z), pressure, initial=0.0)
    pseudopressure += 2 * pressure[0] ** 2 / (viscosity[0] * z[0]) / 2
    density = 0.05 * pressure / z
    return {
        "pressure": pressure,
        "z-factor": z,
        "viscosity": viscosity,
        "compressibility": compressibility,
        "pseudopressure": pseudopressure,
        "density": density,
    }


def alpha_table(n=60, p_max=9_000.0):
    pressure = np.linspace(50.0, p_max, n)
    pseudopressure = pressure**1.7
    alpha = 3.0 + np.sin(pressure / 900.0) + pressure / 4000.0
    return {"pressure": pressure, "pseudopressure": pseudopressure, "alpha": alpha}


# --------------------------------------------------------------------------
# the property, checked directly on the stored results
# --------------------------------------------------------------------------
def expected_system(res, i, schedule_m=None):
    """Matrix (dense) and right-hand side of step i -> i+1 as the property states them."""
    time, pp = res.time, res.pseudopressure
    n = res.nx
    dt = time[i + 1] - time[i]
    if isinstance(res, SinglePhaseReservoir):
        h2 = (1 / n) ** 2
        r = dt / h2
        m_i = res.fluid.m_i
        b = np.minimum(np.array(pp[i], dtype=float), m_i)
        mf = schedule_m[i]
        b[0] = mf + res.alpha_scaled(mf) * mf * r
    else:
        grid = np.linspace(0, 1, n)
        h2 = (grid[1] - grid[0]) ** 2
        r = dt / h2
        b = np.array(pp[i], dtype=float)
    k = r * np.asarray(res.alpha_scaled(b), dtype=float)
    a = np.zeros((n, n))
    idx = np.arange(n)
    a[idx, idx] = 1.0 + 2.0 * k
    a[n - 1, n - 1] = 1.0 + k[n - 1]  # no-flow outer node
    a[idx[1:], idx[:-1]] = -k[1:]
    a[idx[:-1], idx[1:]] = -k[:-1]
    return a, b


def check_run(label, res, schedule_p=None, dense_every=1):
    time, pp = np.asarray(res.time), np.asarray(res.pseudopressure)
    ok = True
    if pp.shape != (len(time), res.nx):
        FAILURES.append(f"{label}: pseudopressure shape {pp.shape}")
        return False
    if not np.all(np.isfinite(pp)):
        FAILURES.append(f"{label}: non-finite pseudopressure")
        return False
    schedule_m = None
    if isinstance(res, SinglePhaseReservoir):
        if schedule_p is None:
            schedule_p = np.full(len(time), res.pressure_fracface)
        schedule_m = res.fluid.m_scaled_func(np.asarray(schedule_p))
        first = np.full(res.nx, float(res.fluid.m_i))
        first[0] = schedule_m[0]
    else:
        first = np.ones(res.nx)
    if not np.array_equal(pp[0], first):
        FAILURES.append(f"{label}: wrong initial profile")
        ok = False
    for i in range(len(time) - 1):
        a, b = expected_system(res, i, schedule_m)
        x = pp[i + 1]
        # residual evaluated in extended precision so that the evaluation
        # itself does not pollute the measurement
        al, xl, bl = a.astype(np.longdouble), x.astype(np.longdouble), b.astype(np.longdouble)
        resid = np.abs(al @ xl - bl).astype(float)
        scale = np.abs(a) @ np.abs(x) + np.abs(b)
        # (1) rows named by the property (interior nodes and the no-flow outer
        #     node), each relative to the size of its own equation
        comp = float(np.max(resid[1:] / scale[1:])) / EPS
        # (2) the whole system, boundary row included, as a normwise backward error
        backward = float(np.max(resid) / (np.max(np.sum(np.abs(a), axis=1)) * np.max(np.abs(x)) + np.max(np.abs(b)))) / EPS
        # (3) relative to the step's right-hand side (reported; its rounding-level
        #     size grows with the mesh ratio because |A||x| does)
        norm = float(np.max(resid) / np.max(np.abs(b))) / EPS
        norm_allowed = 4 * float(np.max(scale) / np.max(np.abs(b)))
        STATS["steps"] += 1
        STATS["worst_componentwise"] = max(STATS["worst_componentwise"], comp)
        STATS["worst_backward"] = max(STATS["worst_backward"], backward)
        STATS["worst_normwise"] = max(STATS["worst_normwise"], norm)
        STATS["worst_normwise_ratio"] = max(STATS["worst_normwise_ratio"], norm / norm_allowed)
        if not (comp <= 16 and backward <= 4 and norm <= norm_allowed):
            FAILURES.append(
                f"{label}: step {i} residual: rows 1.. {comp:.1f} eps (own scale), "
                f"backward error {backward:.2f} eps, vs rhs {norm:.3g} eps (allowed {norm_allowed:.3g})"
            )
            ok = False
            break
        if i % dense_every == 0:
            x_ref = np.linalg.solve(a, b)
            cond = np.linalg.cond(a, np.inf)
            diff = float(np.max(np.abs(x - x_ref)) / np.max(np.abs(x_ref)))
            STATS["worst_vs_dense"] = max(STATS["worst_vs_dense"], diff)
            if not diff <= 32 * EPS * max(cond, 1.0):
                FAILURES.append(f"{label}: step {i} differs from dense solve by {diff:.2e}")
                ok = False
                break
    return ok


# --------------------------------------------------------------------------
# cases
# --------------------------------------------------------------------------
def time_grids():
    rng = np.random.default_rng(20240722)
    grids = {
        "sqrt": np.linspace(0, 3.0, 90) ** 2,
        "log": np.concatenate([[0.0], np.logspace(-7, 2, 70)]),
        "random": np.cumsum(np.concatenate([[0.0], rng.uniform(1e-5, 0.4, 60) ** 2])),
        "shifted": 5.0 + np.linspace(0, 2.0, 50) ** 2,
        "negative": -3.0 + np.cumsum(np.concatenate([[0.0], rng.uniform(1e-4, 0.2, 55)])),
        "integer": np.array([0, 1, 2, 4, 7, 8, 16, 17, 40, 100], dtype=np.int64),
        "integer-shifted": np.arange(-5, 20, dtype=np.int32),
        "repeated": np.array([0.0, 0.0, 1e-3, 1e-3, 5e-3, 0.02, 0.02, 0.5]),
        "alternating": np.cumsum(np.concatenate([[0.0], np.tile([1e-4, 0.3], 25)])),
        "float32": (np.linspace(0, 2.0, 40) ** 2).astype(np.float32),
        "two": np.array([0.0, 0.25]),
        "one": np.array([1.5]),
    }
    return grids


def schedules(nt, p_i, kind):
    s = np.linspace(0, 1, nt)
    if kind == "ramp":
        return p_i - (p_i - 800.0) * s
    if kind == "shut-in":
        p = np.full(nt, 1500.0)
        p[nt // 2 :] = p_i
        return p
    if kind == "build-up":
        p = np.full(nt, 2500.0)
        p[nt // 3 :] = min(p_i * 1.15, 8_900.0)
        p[2 * nt // 3 :] = 600.0
        return p
    if kind == "wiggle":
        return 3000.0 + 2500.0 * np.sin(9.0 * s) * np.cos(31.0 * s)
    raise KeyError(kind)


def main():
    grids = time_grids()
    gas = FlowProperties(gas_table(), 8_000.0)
    gas_low = FlowProperties(gas_table(), 3_000.0)
    user_alpha = FlowProperties(alpha_table(), 7_000.0)

    # ---- ideal reservoirs: node counts 3..400, all grids
    for nx in (3, 4, 17, 120, 400):
        for name, grid in grids.items():
            if nx in (120, 400) and name not in ("sqrt", "log", "integer", "negative"):
                continue
            res = IdealReservoir(nx, 1000.0, 9000.0, None)
            res.simulate(grid)
            check_run(f"ideal nx={nx} {name}", res, dense_every=1 if nx < 100 else 7)

    # ---- real-gas reservoirs, constant frac-face pressure, several pressure pairs
    for fluid, p_i, fname in ((gas, 8_000.0, "gas"), (gas_low, 3_000.0, "gas-low"), (user_alpha, 7_000.0, "alpha")):
        for p_f in (100.0, 0.5 * p_i, 0.97 * p_i, p_i):
            for nx in (3, 30, 400):
                for name in ("sqrt", "log", "shifted", "integer", "repeated", "float32", "one"):
                    if nx == 400 and name not in ("log", "integer"):
                        continue
                    res = SinglePhaseReservoir(nx, p_f, p_i, fluid)
                    res.simulate(grids[name])
                    check_run(
                        f"single {fname} pf={p_f} nx={nx} {name}",
                        res,
                        dense_every=1 if nx < 100 else 9,
                    )

    # ---- time-varying schedules (shut-in, build-up above initial pressure, ...)
    for kind in ("ramp", "shut-in", "build-up", "wiggle"):
        for name in ("sqrt", "random", "negative", "integer", "alternating"):
            for nx in (5, 64):
                grid = grids[name]
                sched = schedules(len(grid), 8_000.0, kind)
                res = SinglePhaseReservoir(nx, 8_000.0, 8_000.0, gas)
                res.simulate(grid, pressure_fracface=sched)
                check_run(f"schedule {kind} nx={nx} {name}", res, schedule_p=sched)
                # list-valued schedule is accepted as well
                res2 = SinglePhaseReservoir(nx, 8_000.0, 8_000.0, gas)
                res2.simulate(grid, pressure_fracface=list(sched))
                if not np.array_equal(res2.pseudopressure, res.pseudopressure):
                    FAILURES.append(f"schedule {kind} nx={nx} {name}: list schedule differs")

    # ---- two-phase wrapper class runs the same stepping
    res = TwoPhaseReservoir(25, 900.0, 7_000.0, user_alpha)
    res.simulate(grids["log"])
    check_run("twophase log", res)

    # ---- histories on one object and objects sharing a fluid
    a = SinglePhaseReservoir(40, 500.0, 8_000.0, gas)
    b = SinglePhaseReservoir(12, 7_900.0, 8_000.0, gas)  # shares the fluid with a
    a.simulate(grids["sqrt"])
    first = a.pseudopressure.copy()
    b.simulate(grids["log"])
    check_run("shared fluid b", b)
    check_run("shared fluid a (after b ran)", a)
    sched = schedules(len(grids["random"]), 8_000.0, "build-up")
    a.simulate(grids["random"], pressure_fracface=sched)
    check_run("a: scheduled rerun", a, schedule_p=sched)
    a.recovery_factor()
    a.simulate(grids["sqrt"])  # the schedule must not stick, results must repeat exactly
    check_run("a: constant rerun", a)
    if not np.array_equal(a.pseudopressure, first):
        FAILURES.append("rerun on one object does not reproduce the first run")
    # a failing call (wrong schedule length) leaves the previous results in place
    kept_t, kept_p = a.time, a.pseudopressure
    try:
        a.simulate(grids["log"], pressure_fracface=np.full(3, 900.0))
    except ValueError:
        pass
    else:
        FAILURES.append("wrong-length schedule did not raise ValueError")
    if not (np.array_equal(a.time, kept_t) and np.array_equal(a.pseudopressure, kept_p)):
        FAILURES.append("failed call changed the stored results")
    check_run("a: after failed call", a)
    a.simulate(grids["integer"])
    check_run("a: integer grid after failure", a)
    rf = a.recovery_factor()
    if rf.shape != (len(grids["integer"]),) or not np.all(np.isfinite(rf)):
        FAILURES.append("recovery after rerun has wrong shape / non-finite values")
    ideal = IdealReservoir(33, 1000.0, 9000.0, None)
    for name in ("log", "integer", "sqrt", "log"):
        ideal.simulate(grids[name])
        check_run(f"ideal history {name}", ideal)

    extra_checks()

    print(
        f"[{CHANGE}] steps checked: {STATS['steps']}; worst residual on interior/outer rows "
        f"{STATS['worst_componentwise']:.2f} eps of the row's own scale; worst normwise backward error "
        f"{STATS['worst_backward']:.2f} eps; worst residual/|rhs| {STATS['worst_normwise']:.3g} eps "
        f"({STATS['worst_normwise_ratio']:.2f} of the rounding allowance); "
        f"worst distance to dense solve {STATS['worst_vs_dense']:.2e}"
    )
    if FAILURES:
        print(f"[{CHANGE}] {len(FAILURES)} FAILURES")
        for f in FAILURES[:40]:
            print("  ", f)
        return 1
    print(f"[{CHANGE}] property C04 holds on all cases")
    return 0


# --------------------------------------------------------------------------
# checks specific to this change
# --------------------------------------------------------------------------
def extra_checks():
    """b4: matrix structure allocated once per run and refilled in place."""
    system_cls = reservoir_module._StepSystem
    rng = np.random.default_rng(11)
    for n in (2, 3, 4, 9, 400):
        system = system_cls(n)
        previous = None
        for scale in (1.0, 0.0, 1e-8, 37.0, 1e9, 0.5):  # refills must not remember earlier steps
            k = scale * rng.uniform(0.1, 4.0, n)
            b = rng.uniform(-1.0, 2.0, n)
            k0, b0 = k.copy(), b.copy()
            a = np.diag(1 + 2 * k)
            a[-1, -1] = 1 + k[-1]
            a += np.diag(-k[1:], -1) + np.diag(-k[:-1], 1)
            filled = system.fill(k)
            if filled.shape != (n, n) or not np.array_equal(filled.toarray(), a):
                FAILURES.append(f"refilled matrix differs from the step matrix (n={n}, scale={scale})")
            if not np.array_equal(filled.toarray(), reservoir_module._build_matrix(k).toarray()):
                FAILURES.append(f"refilled matrix differs from _build_matrix (n={n})")
            x = system.solve(k, b)
            if not (np.array_equal(k, k0) and np.array_equal(b, b0)):
                FAILURES.append("solve modified its inputs")
            if previous is not None and np.shares_memory(x, previous):
                FAILURES.append("solutions of different steps share memory")
            previous = x
            r = np.abs(a @ x - b) / (np.abs(a) @ np.abs(x) + np.abs(b))
            if not np.max(r[1:]) <= 16 * EPS:
                FAILURES.append(f"solve residual n={n} scale={scale}: {np.max(r[1:]) / EPS:.1f} eps")
        # wrong number of nodal values is refused rather than broadcast
        try:
            system.fill(np.ones(n + 1))
        except ValueError:
            pass
        else:
            FAILURES.append("fill accepted the wrong number of nodes")

    # two systems (two runs / two reservoirs) never share storage
    s1, s2 = system_cls(5), system_cls(5)
    m1 = s1.fill(np.full(5, 2.0)).toarray()
    s2.fill(np.full(5, 7.0))
    if not np.array_equal(s1.fill(np.full(5, 2.0)).toarray(), m1) or np.shares_memory(
        s1._matrix.data, s2._matrix.data
    ):
        FAILURES.append("step systems share storage")
    # nothing of the per-run system is kept on the reservoir or its class
    res = IdealReservoir(8, 1000.0, 9000.0, None)
    res.simulate(np.linspace(0, 1, 6))
    leaked = [k for k, v in vars(res).items() if isinstance(v, system_cls)]
    leaked += [k for k, v in vars(type(res)).items() if isinstance(v, system_cls)]
    if leaked:
        FAILURES.append(f"step system kept after the run: {leaked}")

    # an exactly singular step (needs a negative time increment) is an error, not a stored NaN
    system = system_cls(2)
    try:
        x = system.solve(np.array([-0.5, 0.0]), np.ones(2))  # matrix [[0, .5], [0, 1]]
    except reservoir_module.LinearSolveError:
        pass
    else:
        if np.all(np.isfinite(x)):
            FAILURES.append("singular step produced a finite 'solution'")
        else:
            FAILURES.append("singular step returned NaN without raising")
    if not issubclass(reservoir_module.LinearSolveError, RuntimeError):
        FAILURES.append("LinearSolveError is not a RuntimeError")


if __name__ == "__main__":
    sys.exit(main())
