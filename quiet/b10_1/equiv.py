"""Evidence that property C10 holds for the library found on PYTHONPATH.

C10: after any sequence of simulate / recovery_factor / recovery_factor_interpolator
calls on one reservoir object, the stored times and pseudopressure, every value
returned by a recovery call and the interpolator's output are identical to those of
a fresh object on which only the latest simulation and the recovery calls made after
it were executed; repeating a call with the same arguments gives the same result.

Nothing here compares against another version of the library.  The expectations are
  (a) the property itself: histories on one object versus fresh objects,
  (b) repeat-call stability, failed calls leaving the object untouched, inputs not
      being modified, earlier interpolators staying valid, objects sharing a fluid,
  (c) the mathematics: every stored step must satisfy the implicit finite-difference
      equations (checked with an independent dense assembly and residual), recovery
      must be the trapezoid integral of the frac-face flux / the mass depletion, and
      the interpolator must be the clamped piecewise-linear curve through
      (time, recovery).

Run as:  PYTHONPATH=<checkout>/src /venv/bin/python equiv.py      (exit status 0 = ok)
"""

from __future__ import annotations

import itertools
import sys
import warnings
from pathlib import Path

import numpy as np
import pandas as pd

warnings.simplefilter("ignore")

import bluebonnet
from bluebonnet.flow import FlowProperties, IdealReservoir, SinglePhaseReservoir
from bluebonnet.flow import reservoir as reservoir_module

CHECKS = 0


def ok(cond, *msg):
    global CHECKS
    CHECKS += 1
    if not cond:
        print("FAILED:", *msg)
        raise SystemExit(1)


def same(a, b):
    """Exact equality of two observations (None, scalars or arrays; NaN == NaN)."""
    if a is None or b is None:
        return a is None and b is None
    a, b = np.asarray(a), np.asarray(b)
    return a.shape == b.shape and bool(np.array_equal(a, b, equal_nan=True))


def close(a, b, rtol=1e-11):
    a, b = np.asarray(a, float), np.asarray(b, float)
    if a.shape != b.shape:
        return False
    scale = max(float(np.max(np.abs(b))) if b.size else 0.0, 1e-300)
    return bool(np.all(np.abs(a - b) <= rtol * scale))


# --------------------------------------------------------------------------- fluids
def make_pvt():
    root = Path(bluebonnet.__file__).resolve().parents[2]
    csv = root / "tests" / "data" / "pvt_gas.csv"
    if csv.exists():
        ren = {
            "P": "pressure",
            "Z-Factor": "z-factor",
            "Cg": "compressibility",
            "Viscosity": "viscosity",
            "Density": "density",
        }
        return pd.read_csv(csv).rename(columns=ren)
    # synthetic, smooth real-gas-like table (only used when the test data is absent)
    p = np.linspace(10.0, 12000.0, 600)
    z = 1.0 - 4e-5 * p + 4e-9 * p**2
    mu = 0.015 + 1.5e-6 * p
    cg = 1.0 / p
    rho = 0.003 * p / z
    m = np.concatenate([[0.0], np.cumsum(np.diff(p) * (2 * p / (mu * z))[1:])])
    return pd.DataFrame(
        {"pressure": p, "z-factor": z, "viscosity": mu, "compressibility": cg,
         "density": rho, "pseudopressure": m}
    )


PVT = make_pvt()
P_INIT = 8000.0
P_FRAC = 1000.0


def new_fluid():
    return FlowProperties(PVT, P_INIT)


# ---------------------------------------------------------------------------- grids
GRIDS = {
    "A": np.linspace(0.0, 1.2, 16) ** 2,            # grid A
    "B": np.linspace(0.0, 0.9, 16),                 # grid B, same length as A
    "C": np.linspace(0.0, 1.5, 23) ** 2,            # grid C, other length
    "shift": 4.0 + np.linspace(0.0, 1.0, 16) ** 2,  # does not start at zero
    "neg": -2.5 + np.linspace(0.0, 1.1, 19),        # negative times
    "int": np.arange(0, 12),                        # integer dtype
    "intshift": np.arange(3, 19, 2),                # integer dtype, shifted
    "ramp": np.cumsum(np.concatenate([[0.0], np.geomspace(1e-6, 0.3, 17)])),
    "tiny": np.array([0.0, 1e-9, 2e-9, 0.4]),
    "two": np.array([0.0, 0.25]),
}


def schedule(kind, n):
    """Frac-face pressure schedules, including shut-in and build-up above p_initial."""
    s = np.full(n, P_FRAC)
    if kind == "steps":
        s[n // 3:] = 0.5 * P_FRAC
        s[2 * n // 3:] = 0.25 * P_FRAC
    elif kind == "shutin":
        s[n // 3: 2 * n // 3] = P_INIT          # shut in at initial pressure
    elif kind == "buildup":
        s[n // 4: n // 2] = 1.15 * P_INIT       # above initial pressure
        s[n // 2:] = 0.6 * P_INIT
    elif kind == "zigzag":
        s = P_FRAC + 0.5 * P_INIT * (np.arange(n) % 3)
    return s


QUERY = np.concatenate([np.linspace(-6.0, 21.0, 109), [0.0, 1e-9, 0.81, 1.44, 2.25, 4.0, 5.0, 11.0]])


# ------------------------------------------------------------------------ operations
# ("sim", grid, sched-kind-or-None) | ("badsim", grid) | ("rf", density) | ("rft", density)
# | ("interp",)
def is_sim(op):
    return op[0] == "sim"


def apply(res, op):
    """Run one operation; return a comparable record of what the caller would see."""
    kind = op[0]
    try:
        if kind == "sim":
            time = GRIDS[op[1]].copy()
            keep = time.copy()
            if op[2] is None:
                res.simulate(time)
            else:
                sched = schedule(op[2], len(time))
                keep_s = sched.copy()
                res.simulate(time, sched)
                ok(same(sched, keep_s), "schedule modified by simulate", op)
            ok(same(time, keep) and time.dtype == keep.dtype, "time modified by simulate", op)
            return ("sim-ok",)
        if kind == "badsim":
            time = GRIDS[op[1]].copy()
            res.simulate(time, schedule("steps", len(time) + 2))
            return ("badsim-returned",)
        if kind == "rf":
            return ("rf", np.array(res.recovery_factor(density=op[1]), copy=True))
        if kind == "rft":
            time_arg = getattr(res, "time", None)  # explicit time argument
            return ("rf", np.array(res.recovery_factor(time_arg, density=op[1]), copy=True))
        if kind == "interp":
            f = res.recovery_factor_interpolator()
            return ("interp", np.array(f(QUERY), copy=True), f)
    except (RuntimeError, ValueError) as e:  # documented failure modes
        base = "RuntimeError" if isinstance(e, RuntimeError) else "ValueError"
        return ("raised", base)
    raise AssertionError(op)


def observe(res):
    out = {}
    for name in ("time", "pseudopressure", "recovery"):
        try:
            out[name] = np.array(getattr(res, name), copy=True)
        except AttributeError:
            out[name] = None
    return out


def same_obs(a, b):
    return all(same(a[k], b[k]) for k in ("time", "pseudopressure", "recovery"))


def same_record(a, b):
    if a[0] != b[0]:
        return False
    if a[0] in ("rf", "interp"):
        return same(a[1], b[1])
    return a[:2] == b[:2]


def reference_ops(history):
    """The latest successful simulation and the recovery/interpolator calls after it."""
    last = max((i for i, op in enumerate(history) if is_sim(op)), default=None)
    if last is None:
        return [op for op in history if op[0] != "badsim"]
    return [history[last]] + [op for op in history[last + 1:] if op[0] != "badsim"]


def run_history(make, history, label):
    """Run `history` on one object; after every call compare with a fresh object."""
    res = make()
    interpolators = []
    for n, op in enumerate(history, 1):
        before = observe(res)
        rec = apply(res, op)
        after = observe(res)
        if rec[0] == "raised" or op[0] == "badsim":
            ok(rec[0] == "raised", "call should have raised", label, history[:n])
            ok(same_obs(before, after), "failed call changed the object", label, history[:n])
        if rec[0] == "interp":
            interpolators.append((rec[2], rec[1]))
        # the fresh object: latest simulation + recovery calls made after it
        ref = make()
        ref_rec = None
        for rop in reference_ops(history[:n]):
            ref_rec = apply(ref, rop)
        ok(same_obs(after, observe(ref)), "state differs from fresh object", label, history[:n])
        if op[0] in ("rf", "rft", "interp"):
            ok(same_record(rec, ref_rec), "returned value differs from fresh object", label,
               history[:n])
            # repeating the call gives the same result and the same state
            again = apply(res, op)
            ok(same_record(rec, again), "repeated call differs", label, history[:n])
            ok(same_obs(after, observe(res)), "repeated call changed state", label, history[:n])
    # interpolators handed out earlier keep describing the run they were built from
    for f, expected in interpolators:
        ok(same(f(QUERY), expected), "an earlier interpolator changed", label, history)
    return res


# ----------------------------------------------------------- independent mathematics
def dense_matrix(k):
    n = len(k)
    a = np.zeros((n, n))
    for i in range(n):
        a[i, i] = 1.0 + 2.0 * k[i]
        if i > 0:
            a[i, i - 1] = -k[i]
        if i < n - 1:
            a[i, i + 1] = -k[i]
    a[-1, -1] = 1.0 + k[-1]
    return a


def check_physics(res, sched=None, label=""):
    """Stored results satisfy the implicit step equations; recovery is their integral."""
    t = np.asarray(res.time, dtype=float)
    pp = res.pseudopressure
    nx = res.nx
    ok(pp.shape == (len(t), nx), "pseudopressure shape", label)
    single = isinstance(res, SinglePhaseReservoir)
    if single:
        fl = res.fluid
        m_i = float(fl.m_i)
        pf = np.full(len(t), res.pressure_fracface) if sched is None else sched
        m_f = np.asarray(fl.m_scaled_func(pf), dtype=float)
        a_i = float(fl.alpha(m_i))
        first = np.full(nx, m_i)
        first[0] = m_f[0]
        ok(same(pp[0], first), "initial condition", label)
        dx2 = (1.0 / nx) ** 2
    else:
        ok(same(pp[0], np.ones(nx)), "initial condition", label)
        dx2 = (1.0 / (nx - 1)) ** 2
    for i in range(len(t) - 1):
        r = (t[i + 1] - t[i]) / dx2
        if single:
            b = np.minimum(pp[i], m_i)
            b[0] = m_f[i] + float(fl.alpha(m_f[i])) / a_i * m_f[i] * r
            k = r * np.asarray(fl.alpha(b), dtype=float) / a_i
        else:
            b = pp[i].copy()
            k = r * np.ones(nx)
        a = dense_matrix(k)
        resid = a @ pp[i + 1] - b
        bound = 1e-12 * (np.abs(a) @ np.abs(pp[i + 1]) + np.abs(b))
        ok(np.all(np.abs(resid) <= bound), "step equation residual", label, i,
           float(np.max(np.abs(resid) / bound)))
        ok(close(pp[i + 1], np.linalg.solve(a, b), 1e-11), "step solution", label, i)
    # recovery (flux form): trapezoid rule written out as a plain loop
    flux = [(-row[2] + 4 * row[1] - 3 * row[0]) * (nx - 1.0) * 0.5 for row in pp]
    total, cum = 0.0, [0.0]
    for i in range(len(t) - 1):
        total += (t[i + 1] - t[i]) * (flux[i + 1] + flux[i]) / 2.0
        cum.append(total)
    scale = 1.0 if single else 1.0 - res.pressure_fracface / res.pressure_initial
    rf = res.recovery_factor()
    ok(close(rf, np.array(cum) * scale, 1e-12), "recovery is the flux integral", label)
    ok(same(res.recovery, rf), "recovery attribute is the latest result", label)
    check_interpolator(res, rf, label)
    if res.fluid is not None:
        xs = np.asarray(res.fluid.pvt_props["m-scaled"], dtype=float)
        ys = np.asarray(res.fluid.pvt_props["density"], dtype=float)
        inside = (pp >= xs.min()) & (pp <= xs.max())
        mass = np.interp(pp, xs, ys)
        rfd = res.recovery_factor(density=True)
        if np.all(inside):
            m_t = mass.sum(axis=1)
            ok(close(rfd, (1.0 - m_t / m_t[0]) * (1.0 if single else scale), 1e-11),
               "density recovery is the mass depletion", label)
        ok(same(res.recovery, rfd), "recovery attribute is the latest result (density)", label)
        check_interpolator(res, rfd, label + " density")


def check_interpolator(res, rf, label):
    """Clamped piecewise-linear curve through (time, recovery)."""
    t = np.asarray(res.time, dtype=float)
    f = res.recovery_factor_interpolator()
    ok(same(res.recovery, rf), "interpolator changed the stored recovery", label)
    ok(close(f(t), rf, 1e-13), "interpolator at the nodes", label)
    ok(same(f(t.min() - 1.0), 0.0) and same(f(t.min() - 1e-9), 0.0), "fill below", label)
    ok(same(f(t.max() + 1.0), rf[-1]) and same(f(t.max() + 1e-9), rf[-1]), "fill above", label)
    if len(t) > 1 and np.all(np.diff(t) > 0):
        mid = 0.25 * t[:-1] + 0.75 * t[1:]
        ok(close(f(mid), 0.25 * rf[:-1] + 0.75 * rf[1:], 1e-12), "linear between nodes", label)
    q = np.array([[t[0], t[-1]], [t[0] - 3.0, t[-1] + 3.0]])
    out = f(q)
    ok(np.shape(out) == (2, 2), "interpolator keeps the query shape", label)
    ok(same(out[1], [0.0, rf[-1]]), "fill values in 2-d query", label)
    ok(np.shape(f(float(t[0]))) == (), "scalar query gives a scalar", label)
    ok(bool(np.isnan(f(np.nan))), "nan query gives nan", label)


# ------------------------------------------------------------------------------ main
def main():
    shared = new_fluid()
    makers = {
        "ideal": lambda: IdealReservoir(12, P_FRAC, P_INIT, shared),
        "ideal-nofluid": lambda: IdealReservoir(9, P_FRAC, P_INIT, None),
        "single": lambda: SinglePhaseReservoir(12, P_FRAC, P_INIT, shared),
    }

    # 1. every call sequence up to length 3 (4 for the ideal case) over the quantifier's
    #    alphabet
    alphabet = [("sim", "A", None), ("sim", "B", None), ("sim", "C", None),
                ("rf", False), ("rf", True), ("interp",)]
    for name, depth in (("ideal", 4), ("single", 3)):
        for n in range(1, depth + 1):
            for hist in itertools.product(alphabet, repeat=n):
                run_history(makers[name], list(hist), name)

    # 2. longer random histories over a wider alphabet (other grids, schedules, failures)
    rng = np.random.default_rng(20211)
    wide = alphabet + [("sim", g, None) for g in ("shift", "neg", "int", "intshift", "ramp",
                                                  "tiny", "two")]
    wide += [("rft", False), ("rft", True), ("interp",), ("rf", False)]
    wide_single = wide + [("sim", g, s) for g in ("A", "B", "C", "shift", "int")
                          for s in ("steps", "shutin", "buildup", "zigzag")]
    wide_single += [("badsim", "A"), ("badsim", "C")]
    for name, ops, count in (("ideal", wide, 60), ("single", wide_single, 90)):
        for _ in range(count):
            hist = [ops[j] for j in rng.integers(0, len(ops), size=9)]
            run_history(makers[name], hist, name + "-random")
    # density recovery needs a fluid: the failure must not disturb the object
    res = makers["ideal-nofluid"]()
    res.simulate(GRIDS["A"].copy())
    first = np.array(res.recovery_factor(), copy=True)
    before = observe(res)
    try:
        res.recovery_factor(density=True)
        ok(False, "density recovery without a fluid should fail")
    except (AttributeError, TypeError):
        pass
    ok(same_obs(before, observe(res)) and same(res.recovery_factor(), first),
       "failed density recovery changed the object")

    # 3. objects sharing one fluid, interleaved, against objects with their own fluid
    a, b = makers["single"](), makers["ideal"]()
    a.simulate(GRIDS["C"].copy(), schedule("buildup", 23))
    b.simulate(GRIDS["A"].copy())
    ra = a.recovery_factor(density=True)
    rb = b.recovery_factor()
    a.simulate(GRIDS["A"].copy())
    fb = b.recovery_factor_interpolator()
    ra2 = a.recovery_factor()
    own_a = SinglePhaseReservoir(12, P_FRAC, P_INIT, new_fluid())
    own_a.simulate(GRIDS["A"].copy())
    own_b = IdealReservoir(12, P_FRAC, P_INIT, new_fluid())
    own_b.simulate(GRIDS["A"].copy())
    ok(same(ra2, own_a.recovery_factor()) and same(a.pseudopressure, own_a.pseudopressure),
       "shared fluid: single-phase object")
    ok(same(rb, own_b.recovery_factor()) and same(fb(QUERY), own_b.recovery_factor_interpolator()(QUERY)),
       "shared fluid: ideal object")
    ok(len(ra) == 23, "density recovery length")

    # 4. the mathematics, on the end state of histories (so stale state would show)
    for gname, grid in GRIDS.items():
        for name in ("ideal", "single"):
            res = makers[name]()
            res.simulate(GRIDS["C"].copy())
            res.recovery_factor(density=True)
            res.recovery_factor_interpolator()
            res.simulate(grid.copy())
            check_physics(res, None, f"{name} {gname}")
    for nx in (5, 40):
        for cls in (IdealReservoir, SinglePhaseReservoir):
            res = cls(nx, P_FRAC, P_INIT, shared)
            res.simulate(np.linspace(0.0, 2.0, 60) ** 2)
            check_physics(res, None, f"{cls.__name__} nx={nx}")
    for kind in ("steps", "shutin", "buildup", "zigzag"):
        for gname in ("A", "C", "shift", "int"):
            res = makers["single"]()
            res.simulate(GRIDS["B"].copy(), schedule("steps", 16))
            res.recovery_factor()
            sched = schedule(kind, len(GRIDS[gname]))
            res.simulate(GRIDS[gname].copy(), sched)
            ok(res.pressure_fracface == P_FRAC, "schedule leaked into the object", kind)
            check_physics(res, sched, f"single {gname} {kind}")
            # a run without a schedule afterwards uses the constructor's pressure again
            res.simulate(GRIDS[gname].copy())
            check_physics(res, None, f"single {gname} after {kind}")

    extra_checks(makers)
    print(f"equiv.py: all {CHECKS} checks passed")
    return 0


def extra_checks(makers):
    """Change-specific: the banded tridiagonal step solver on its own."""
    solve = getattr(reservoir_module, "_solve_timestep", None)
    if solve is None:  # library without this change
        return
    rng = np.random.default_rng(5)
    for n in (2, 3, 7, 50, 200):
        for scale in (0.0, 1e-9, 1.0, 250.0, 1e5, 1e9):
            k = scale * rng.uniform(0.05, 3.0, n)
            b = rng.uniform(-1.0, 2.0, n)
            k0, b0 = k.copy(), b.copy()
            x = solve(k, b)
            ok(same(k, k0) and same(b, b0), "solver modified its arguments")
            a = dense_matrix(k)
            bound = 1e-12 * (np.abs(a) @ np.abs(x) + np.abs(b))
            ok(np.all(np.abs(a @ x - b) <= bound), "banded solve residual", n, scale)
            # banded storage holds the same entries as the sparse matrix builder
            ab = reservoir_module._build_banded(k)
            sp = reservoir_module._build_matrix(k).toarray()
            ok(same(sp, a), "sparse builder entries")
            dense_from_band = np.zeros((n, n))
            for i in range(n):
                for j in range(max(0, i - 1), min(n, i + 2)):
                    dense_from_band[i, j] = ab[1 + i - j, j]
            ok(same(dense_from_band, a), "banded entries")
    # a row view of the results array as right-hand side must stay intact
    res = makers["ideal"]()
    res.simulate(GRIDS["A"].copy())
    ok(same(res.pseudopressure[0], np.ones(res.nx)), "first row overwritten")


if __name__ == "__main__":
    sys.exit(main())
