"""Check the changed library against property C04.

Every stored time level must be the implicit backward-Euler update of the
previous one, with a residual at rounding level, for every step of every run.
The expectations are built here from the property alone (own tridiagonal
coefficients, residual in extended precision) plus an independent reference
time-stepper that uses a plain direct sparse solve.

Run as:  PYTHONPATH=<checkout>/src /venv/bin/python equiv.py
"""

from __future__ import annotations

import os
import sys
import warnings

import numpy as np
import pandas as pd
from scipy import integrate, sparse
from scipy.sparse import linalg as spla

import bluebonnet
from bluebonnet.flow import FlowProperties, IdealReservoir, SinglePhaseReservoir
from bluebonnet.flow import reservoir as resmod

LD = np.longdouble
EPS = float(np.finfo(float).eps)
# the direct solve of the unchanged library reaches about 0.8 eps componentwise
OMEGA_MAX = 2.0 * EPS
FAILS: list[str] = []
STATS = {"steps": 0, "runs": 0, "worst_omega": 0.0, "worst_diff": 0.0}


def fail(msg):
    FAILS.append(msg)
    print("FAIL:", msg)


# --------------------------------------------------------------------------- fluids
def synthetic_fluid(p_i, reverse=False):
    p = np.linspace(14.7, 12000.0, 240)
    z = 1.0 - 3.2e-5 * p + 4.1e-9 * p**2
    mu = 0.012 + 2.3e-6 * p + 1.0e-10 * p**2
    cg = 1.0 / p - (-3.2e-5 + 8.2e-9 * p) / z
    m = integrate.cumulative_trapezoid(2 * p / (mu * z), p, initial=0.0)
    df = pd.DataFrame(
        {
            "pressure": p,
            "z-factor": z,
            "viscosity": mu,
            "compressibility": cg,
            "density": 0.0026 * p / z,
            "pseudopressure": m,
        }
    )
    if reverse:
        df = df.iloc[::-1].reset_index(drop=True)
    return FlowProperties(df, p_i)


def csv_fluid(p_i):
    root = os.path.dirname(os.path.dirname(os.path.dirname(os.path.abspath(bluebonnet.__file__))))
    path = os.path.join(root, "tests", "data", "pvt_gas.csv")
    if not os.path.exists(path):
        return None
    ren = {
        "P": "pressure",
        "Z-Factor": "z-factor",
        "Cg": "compressibility",
        "Viscosity": "viscosity",
        "Density": "density",
    }
    return FlowProperties(pd.read_csv(path).rename(columns=ren), p_i)


# ------------------------------------------------------------- the property, per step
def step_system(res, kind, prev, t0, t1, m_f_i):
    """Right-hand side and tridiagonal coefficients of the step, from the property."""
    nx = res.nx
    if kind == "ideal":
        x = np.linspace(0, 1, nx)
        mesh = (t1 - t0) / (x[1] - x[0]) ** 2
        b = np.array(prev, dtype=float)
    else:
        mesh = (t1 - t0) / (1 / nx) ** 2
        b = np.minimum(np.array(prev, dtype=float), res.fluid.m_i)
        b[0] = m_f_i + res.alpha_scaled(m_f_i) * m_f_i * mesh
    k = mesh * res.alpha_scaled(b)
    diag = 1.0 + 2.0 * k
    diag[-1] = 1.0 + k[-1]  # no-flow outer node
    lower = np.zeros(nx)
    upper = np.zeros(nx)
    lower[1:] = -k[1:]
    upper[:-1] = -k[:-1]
    return lower, diag, upper, b


def omega_of(lower, diag, upper, b, x):
    lo, d, up, bw, xw = (np.asarray(v, dtype=LD) for v in (lower, diag, upper, b, x))
    xl = np.zeros_like(xw)
    xr = np.zeros_like(xw)
    xl[1:] = xw[:-1]
    xr[:-1] = xw[1:]
    t = (lo * xl, d * xw, up * xr)
    r = bw - t[0] - t[1] - t[2]
    scale = np.abs(t[0]) + np.abs(t[1]) + np.abs(t[2]) + np.abs(bw)
    om = np.where(scale > 0, np.abs(r) / np.where(scale > 0, scale, 1), np.where(r == 0, 0.0, np.inf))
    return om, np.abs(r)


def check_property(res, kind, time, schedule=None, label="", omega_max=OMEGA_MAX):
    """Every step i -> i+1 of the stored run satisfies the backward-Euler update."""
    pp = res.pseudopressure
    if pp.shape != (len(time), res.nx):
        fail(f"{label}: stored profile has shape {pp.shape}")
        return
    if not np.all(np.isfinite(pp)):
        fail(f"{label}: stored profile is not finite")
        return
    if kind == "single":
        sched = np.full(len(time), res.pressure_fracface) if schedule is None else schedule
        m_f = res.fluid.m_scaled_func(sched)
    worst = 0.0
    for i in range(len(time) - 1):
        m_f_i = m_f[i] if kind == "single" else None
        lo, d, up, b = step_system(res, kind, pp[i], time[i], time[i + 1], m_f_i)
        om, r = omega_of(lo, d, up, b, pp[i + 1])
        w = float(np.max(om))
        worst = max(worst, w)
        # also norm-wise, relative to the step's right-hand side and |A||x|
        if not w <= omega_max:
            fail(f"{label}: step {i} backward error {w / EPS:.2f} eps")
            return
    STATS["steps"] += len(time) - 1
    STATS["runs"] += 1
    STATS["worst_omega"] = max(STATS["worst_omega"], worst)


# ------------------------------------------------------------------ reference stepper
def ref_matrix(k):
    d = 1.0 + 2 * k
    d[-1] = 1.0 + k[-1]
    return sparse.diags([-k[1:], d, -k[:-1]], [-1, 0, 1], format="csr")


def reference(res, kind, time, schedule=None):
    nx = res.nx
    pp = np.empty((len(time), nx))
    if kind == "ideal":
        x = np.linspace(0, 1, nx)
        dx2 = (x[1] - x[0]) ** 2
        pp[0] = 1.0
        for i in range(len(time) - 1):
            b = pp[i]
            k = (time[i + 1] - time[i]) / dx2 * res.alpha_scaled(b)
            pp[i + 1] = spla.spsolve(ref_matrix(k), b)
        return pp
    dx2 = (1 / nx) ** 2
    sched = np.full(len(time), res.pressure_fracface) if schedule is None else schedule
    m_i = res.fluid.m_i
    m_f = res.fluid.m_scaled_func(sched)
    pp[0] = m_i
    pp[0, 0] = m_f[0]
    for i in range(len(time) - 1):
        mesh = (time[i + 1] - time[i]) / dx2
        b = np.minimum(pp[i].copy(), m_i)
        b[0] = m_f[i] + res.alpha_scaled(m_f[i]) * m_f[i] * mesh
        k = mesh * res.alpha_scaled(b)
        pp[i + 1] = spla.spsolve(ref_matrix(k), b)
    return pp


def run_and_check(res, kind, time, schedule=None, label="", diff_tol=2e-10):
    if kind == "single" and schedule is not None:
        res.simulate(time, schedule)
    else:
        res.simulate(time)
    if res.time is not time:
        fail(f"{label}: stored time is not the grid that was passed")
    check_property(res, kind, time, schedule, label)
    ref = reference(res, kind, time, schedule)
    diff = float(np.max(np.abs(ref - res.pseudopressure))) if len(time) else 0.0
    STATS["worst_diff"] = max(STATS["worst_diff"], diff)
    if not diff <= diff_tol:
        fail(f"{label}: differs from the direct-solve reference by {diff:.3e}")
    return ref


# ------------------------------------------------------------------------- the cases
def time_grids(rng):
    grids = {
        "sqrt": np.linspace(0, 3.0, 150) ** 2,
        "log0": np.r_[0.0, np.logspace(-7, 3, 120)],
        "random": np.cumsum(np.r_[0.0, rng.uniform(1e-6, 1.0, 80) ** 3 * 5]),
        "shifted-negative": -7.5 + np.cumsum(np.r_[0.0, rng.uniform(1e-4, 0.3, 60)]),
        "integer": np.arange(0, 40, dtype=np.int64),
        "integer-uneven": np.array([0, 1, 2, 4, 8, 9, 10, 20, 50, 51], dtype=np.int32),
        "repeated-time": np.array([0.0, 0.1, 0.1, 0.3, 0.3, 0.3, 1.0]),
        "two-point-huge": np.array([0.0, 1.0e6]),
        "tiny-steps": np.linspace(0, 1e-9, 12),
        "single-point": np.array([0.0]),
        "single-point-shifted": np.array([3.5]),
    }
    return grids


def main_cases():
    rng = np.random.default_rng(20260101)
    grids = time_grids(rng)
    p_i = 8000.0
    fluids = {"synthetic": synthetic_fluid(p_i), "synthetic-reversed": synthetic_fluid(p_i, True)}
    cf = csv_fluid(p_i)
    if cf is not None:
        fluids["csv"] = cf

    # ideal reservoirs
    for nx in (3, 4, 31, 400):
        for gname, t in grids.items():
            res = IdealReservoir(nx, 1000.0, p_i, None)
            run_and_check(res, "ideal", t, label=f"ideal nx={nx} {gname}")
            rf = res.recovery_factor()
            if rf.shape != t.shape or not np.all(np.isfinite(rf)):
                fail(f"ideal nx={nx} {gname}: recovery factor broken")

    # single phase, constant frac-face pressure (including p_f == p_i)
    for fname, fl in fluids.items():
        pmin = float(np.min(fl.pvt_props["pressure"]))
        for nx in (3, 50, 400):
            for pf in (100.0, 7999.0, p_i, pmin):
                for gname in ("sqrt", "log0", "random", "shifted-negative", "integer",
                              "repeated-time", "two-point-huge", "single-point"):
                    t = grids[gname]
                    if nx == 400 and gname in ("random", "integer"):
                        continue
                    res = SinglePhaseReservoir(nx, pf, p_i, fl)
                    run_and_check(res, "single", t, label=f"single {fname} nx={nx} pf={pf} {gname}")

    # time-varying schedules: draw-down, shut-in, build-up above initial, NaN in the
    # last (never used) entry
    fl = fluids["synthetic"]
    for nx in (3, 40, 400):
        t = np.r_[0.0, np.logspace(-5, 2, 90)]
        n = len(t)
        scheds = {
            "stairs": np.where(np.arange(n) < 30, 3000.0, np.where(np.arange(n) < 60, 500.0, 6000.0)),
            "shut-in": np.where(np.arange(n) < 45, 800.0, p_i),
            "build-up-above-initial": np.where(np.arange(n) < 45, 800.0, 9500.0),
            "noisy": rng.uniform(200.0, 7900.0, n),
            "nan-padded": np.r_[np.linspace(4000, 1000, n - 1), np.nan],
            "integer-dtype": np.linspace(5000, 500, n).astype(np.int64),
        }
        for sname, s in scheds.items():
            res = SinglePhaseReservoir(nx, 1234.0, p_i, fl)
            run_and_check(res, "single", t, s, label=f"schedule {sname} nx={nx}")
            if res.pressure_fracface != 1234.0:
                fail("schedule leaked into the object")

    # histories: repeated calls in any order, shared fluid, raising calls, kept interpolators
    a = SinglePhaseReservoir(60, 900.0, p_i, fl)
    b = SinglePhaseReservoir(25, 5000.0, p_i, fl)
    c = IdealReservoir(60, 900.0, p_i, None)
    t1, t2, t3 = grids["sqrt"], grids["log0"], grids["integer-uneven"]
    ref_a1 = run_and_check(a, "single", t1, label="hist a/t1").copy()
    interp_a1 = a.recovery_factor_interpolator()
    probe = np.array([0.0, 0.3, 2.0, 8.5, 100.0])
    kept = interp_a1(probe).copy()
    run_and_check(b, "single", t2, label="hist b/t2")
    run_and_check(c, "ideal", t3, label="hist c/t3")
    try:
        a.simulate(t2, np.ones(3))
        fail("wrong-length schedule did not raise")
    except ValueError:
        pass
    if a.time is not t1 or np.max(np.abs(a.pseudopressure - ref_a1)) > 2e-10:
        fail("a raising call disturbed the stored run")
    check_property(a, "single", t1, label="hist a after raising call")
    sched = np.linspace(4000.0, 300.0, len(t2))
    run_and_check(a, "single", t2, sched, label="hist a/t2 schedule")
    if not np.array_equal(interp_a1(probe), kept):
        fail("interpolator kept by the caller changed after a later call")
    run_and_check(a, "single", t1, label="hist a/t1 again")
    if np.max(np.abs(a.pseudopressure - ref_a1)) > 2e-10:
        fail("repeating a run on one object gave a different result")
    rf = a.recovery_factor()
    if not np.allclose(a.recovery_factor_interpolator()(probe), np.interp(probe, t1, rf, left=0, right=rf[-1]), rtol=0, atol=1e-12):
        fail("interpolator after re-run does not belong to the last run")
    run_and_check(b, "single", t3, label="hist b/t3")
    run_and_check(c, "ideal", t1, label="hist c/t1")
    run_and_check(a, "single", grids["single-point"], label="hist a single point")
    run_and_check(a, "single", t3, label="hist a/t3 after single point")


def finish():
    print(
        f"runs={STATS['runs']} steps={STATS['steps']} worst backward error="
        f"{STATS['worst_omega'] / EPS:.3f} eps, worst difference from direct-solve reference="
        f"{STATS['worst_diff']:.3e}"
    )
    if FAILS:
        print(f"{len(FAILS)} FAILURES")
        sys.exit(1)
    print("OK")
    sys.exit(0)


# ------------------------------------------------------------ specific to this change
def specific():
    """Equilibrated LAPACK tridiagonal LU + extended-precision refinement."""
    p_i = 8000.0
    fl = synthetic_fluid(p_i)
    t = np.r_[0.0, np.logspace(-6, 2, 70)]
    rng = np.random.default_rng(7)

    # 1. the step solver itself on badly scaled tridiagonal systems: compare with a
    #    solve in extended precision (Thomas algorithm, valid: diagonally dominant)
    def thomas_wide(lo, d, up, b):
        n = len(b)
        lo, d, up, b = (np.asarray(v, dtype=LD) for v in (lo, d, up, b))
        c = np.zeros(n, dtype=LD)
        g = np.zeros(n, dtype=LD)
        c[0] = up[0] / d[0]
        g[0] = b[0] / d[0]
        for i in range(1, n):
            den = d[i] - lo[i] * c[i - 1]
            c[i] = up[i] / den if i < n - 1 else 0
            g[i] = (b[i] - lo[i] * g[i - 1]) / den
        x = np.zeros(n, dtype=LD)
        x[-1] = g[-1]
        for i in range(n - 2, -1, -1):
            x[i] = g[i] - c[i] * x[i + 1]
        return x

    direct_calls = {"n": 0}
    worst_rel = {}
    real_spsolve = spla.spsolve

    def counting_spsolve(*a, **k):
        direct_calls["n"] += 1
        return real_spsolve(*a, **k)

    spla.spsolve = counting_spsolve
    try:
        for n in (3, 7, 64, 400):
            for spread in (0, 6, 40, 280):
                k = 10.0 ** rng.uniform(-spread / 2, spread / 2, n)
                b = rng.uniform(0.1, 1.0, n) * 10.0 ** rng.uniform(-3, 3, n)
                A = resmod._build_matrix(k.copy())
                x = resmod._solve_step(A, b.copy())
                d = 1.0 + 2.0 * k
                d[-1] = 1.0 + k[-1]
                lo = np.r_[0.0, -k[1:]]
                up = np.r_[-k[:-1], 0.0]
                om, _ = omega_of(lo, d, up, b, x)
                if not np.max(om) <= OMEGA_MAX:
                    fail(f"b2 step solver n={n} spread={spread}: backward error {np.max(om) / EPS:.2f} eps")
                xw = thomas_wide(lo, d, up, b)
                # forward error bounded by cond * backward error; here only a sanity bound
                rel = float(np.max(np.abs(x - xw) / np.maximum(np.abs(xw), np.finfo(float).tiny)))
                worst_rel[spread] = max(worst_rel.get(spread, 0.0), rel)
                if not np.isfinite(rel) or (spread <= 6 and rel > 1e-9):
                    fail(f"b2 step solver n={n} spread={spread}: forward error {rel:.2e}")
        print(f"  badly scaled systems: direct fallbacks={direct_calls['n']} of 16;"
              f" worst relative forward error by decades of spread: {worst_rel}")

        # 2. on real runs the banded path is the one in use and the fallback is rare
        direct_calls["n"] = 0
        for nx, pf in ((3, 100.0), (60, 7999.0), (400, 100.0), (400, 14.7)):
            res = SinglePhaseReservoir(nx, pf, p_i, fl)
            res.simulate(t)
            check_property(res, "single", t, label=f"b2 normal nx={nx} pf={pf}")
        print(f"  normal runs: direct fallbacks={direct_calls['n']} of {4 * (len(t) - 1)} steps")
    finally:
        spla.spsolve = real_spsolve

    # 3. fault injection: LAPACK reporting a singular factor, or a solve routine that
    #    returns rubbish, must not reach the stored profile
    real_get = resmod.get_lapack_funcs

    def singular_funcs(names, arrays=()):
        gttrf, gttrs = real_get(names, arrays)

        def bad_gttrf(dl, d, du):
            out = list(gttrf(dl, d, du))
            out[-1] = 3
            return tuple(out)

        return bad_gttrf, gttrs

    def sloppy_funcs(names, arrays=()):
        gttrf, gttrs = real_get(names, arrays)

        def bad_gttrs(dl, d, du, du2, ipiv, rhs):
            y, info = gttrs(dl, d, du, du2, ipiv, rhs)
            return y * (1 + 1e-6 * np.cos(np.arange(len(y)))), info

        return gttrf, bad_gttrs

    def failing_funcs(names, arrays=()):
        gttrf, gttrs = real_get(names, arrays)

        def bad_gttrs(dl, d, du, du2, ipiv, rhs):
            y, info = gttrs(dl, d, du, du2, ipiv, rhs)
            return y, -1

        return gttrf, bad_gttrs

    for name, fake in (("singular", singular_funcs), ("sloppy", sloppy_funcs), ("failing", failing_funcs)):
        resmod.get_lapack_funcs = fake
        try:
            for kind, res in (
                ("single", SinglePhaseReservoir(80, 500.0, p_i, fl)),
                ("ideal", IdealReservoir(80, 500.0, p_i, None)),
            ):
                run_and_check(res, kind, t, label=f"b2 injected {name} {kind}")
        finally:
            resmod.get_lapack_funcs = real_get

    # 4. decreasing times give indefinite / singular matrices: whatever is stored and
    #    finite must still solve the step's system; nothing new may be raised
    tdec = np.array([0.0, 0.5, 0.4, 0.39, 1.0, 0.2])
    for kind, res in (
        ("single", SinglePhaseReservoir(12, 500.0, p_i, fl)),
        ("ideal", IdealReservoir(12, 500.0, p_i, None)),
    ):
        with warnings.catch_warnings():
            warnings.simplefilter("ignore")
            res.simulate(tdec)
            if np.all(np.isfinite(res.pseudopressure)):
                check_property(res, kind, tdec, label=f"b2 decreasing times {kind}", omega_max=4 * EPS)


if __name__ == "__main__":
    main_cases()
    specific()
    finish()
