"""C04 demo: every stored time level must be the backward-Euler update of the previous one.

SinglePhaseReservoir / TwoPhaseReservoir are run on a non-uniform time grid with
  * an ordinary constant drawdown and a stepping-down schedule (what the test-suite uses),
  * frac-face pressure equal to the initial pressure for the whole run (scalar p_f == p_i),
  * a schedule whose first records are still at the initial pressure (well not yet drawn
    down) followed by a drawdown - the way forecast_pressure.py drives the solver.
Every step i -> i+1 is re-derived independently from the public results (reservoir.time,
reservoir.pseudopressure, reservoir.alpha_scaled) and the residual of the implicit update
built from the stored previous profile, that step's time increment and
reservoir.alpha_scaled(previous right-hand side) is measured relative to the step's
right-hand side.  The library's update puts the frac-face condition into the first row with
the diffusivity evaluated on the right-hand-side vector, so a step with p_f == p_i is an
ordinary solve whose result is *not* the previous profile; the property demands that update
at every step, whatever the pressures are.

exit 0: all steps satisfy the update at rounding level.  exit 1: some step does not.
"""

from __future__ import annotations

import sys
import warnings

import numpy as np

from bluebonnet.flow import FlowProperties, SinglePhaseReservoir, TwoPhaseReservoir

TOL = 1e-9


def make_table(descending: bool) -> dict:
    pressure = np.linspace(50.0, 9000.0, 120)
    z = 1.0 - 2.0e-5 * pressure + 4.0e-9 * pressure**2
    viscosity = 0.012 + 2.5e-6 * pressure
    compressibility = 1.0 / pressure
    integrand = 2.0 * pressure / (viscosity * z)
    pseudopressure = np.concatenate(
        [[0.0], np.cumsum(0.5 * (integrand[1:] + integrand[:-1]) * np.diff(pressure))]
    )
    table = {
        "pressure": pressure,
        "z-factor": z,
        "viscosity": viscosity,
        "compressibility": compressibility,
        "pseudopressure": pseudopressure,
    }
    if descending:
        table = {k: v[::-1].copy() for k, v in table.items()}
    return table


def worst_step_residual(res, schedule) -> tuple[float, int]:
    """Largest relative residual of the implicit update over all steps (independent assembly)."""
    time = np.asarray(res.time, dtype=float)
    pp = np.asarray(res.pseudopressure, dtype=float)
    nx = res.nx
    h2 = (1.0 / nx) ** 2  # the single-phase solver's mesh constant
    m_i = float(res.fluid.m_i)
    m_f = np.asarray(res.fluid.m_scaled_func(schedule), dtype=float)
    worst, where = 0.0, -1
    for i in range(len(time) - 1):
        r = (time[i + 1] - time[i]) / h2
        rhs = np.minimum(pp[i], m_i)
        rhs[0] = m_f[i] + float(res.alpha_scaled(m_f[i])) * m_f[i] * r
        k = r * np.asarray(res.alpha_scaled(rhs), dtype=float)
        new = pp[i + 1]
        lhs = (1.0 + 2.0 * k) * new
        lhs[-1] = (1.0 + k[-1]) * new[-1]  # no-flow outer node
        lhs[:-1] -= k[:-1] * new[1:]
        lhs[1:] -= k[1:] * new[:-1]
        rel = np.max(np.abs(lhs - rhs)) / np.max(np.abs(rhs))
        if not np.isfinite(rel):
            rel = np.inf
        if rel > worst:
            worst, where = rel, i
    return worst, where


def main() -> int:
    p_i = 8000.0
    time = np.concatenate([[0.0], np.geomspace(1e-4, 4.0, 90)])  # non-uniform grid
    n = len(time)
    constant = np.full(n, 1000.0)
    step_down = np.full(n, 4000.0)
    step_down[n // 3 :] = 2000.0
    step_down[2 * n // 3 :] = 1000.0
    no_drawdown = np.full(n, p_i)
    late_start = np.full(n, 1000.0)
    late_start[: n // 3] = p_i  # first records: frac face still at the initial pressure
    with warnings.catch_warnings():
        warnings.simplefilter("ignore")
        fluid = FlowProperties(make_table(False), p_i)
    failures = []

    def check(tag, res, schedule):
        worst, where = worst_step_residual(res, schedule)
        print(f"{tag}: worst relative step residual {worst:.3e} (step {where})")
        if not worst < TOL:
            failures.append(tag)

    for nx in (3, 12, 40):
        for name, schedule in (("constant", constant), ("no-drawdown", no_drawdown)):
            for cls in (SinglePhaseReservoir, TwoPhaseReservoir):
                res = cls(nx, float(schedule[0]), p_i, fluid)
                res.simulate(time)
                check(f"{cls.__name__} nx={nx} scalar p_f={schedule[0]:g} ({name})", res, schedule)
        for name, schedule in (("step-down", step_down), ("late-start", late_start)):
            # as in forecast_pressure.py: configured scalar is p_i, the schedule is passed in
            res = SinglePhaseReservoir(nx, p_i, p_i, fluid)
            res.simulate(time, schedule)
            check(f"SinglePhaseReservoir nx={nx} schedule {name}", res, schedule)
    if failures:
        print("C04 VIOLATED: a stored level is not the backward-Euler update built from the")
        print("stored previous profile for:")
        for tag in failures:
            print("   ", tag)
        return 1
    print("ok: every step is the implicit update of the previous level")
    return 0


if __name__ == "__main__":
    sys.exit(main())
