#!/venv/bin/python
"""seeded/RESULTS.json + meta.json -> seeded/MATRIX.md (which check catches which change)."""
import json, os
V = os.path.dirname(os.path.dirname(os.path.abspath(__file__)))
R = json.load(open(f"{V}/seeded/RESULTS.json"))
rows = []
for r in R["results"]:
    meta = json.load(open(f"{V}/{r['kind']}/{r['name']}/meta.json"))
    cells = []
    for p in ("C04", "C10", "C17"):
        x = r.get(p, {})
        tag = {0: "quiet", 1: "VIOLATION", 2: "harness-error"}.get(x.get("exit"), "?")
        cells.append(f"{tag} ({x.get('violating_runs')}/{x.get('runs')})")
    first = ""
    for p in ("C04", "C10", "C17"):
        for ln in r.get(p, {}).get("lines", []):
            if ln.strip().startswith("clause="):
                first = first or f"{p} {ln.strip().split()[0][7:]}"
    summ = (meta.get("summary") or "").replace("|", "/").replace("\n", " ")
    rows.append((r["kind"], r["name"], meta.get("property") or "-", summ[:230], *cells, first))
with open(f"{V}/seeded/MATRIX.md", "w") as f:
    f.write(f"# Which quick check catches which change (VERIF_SEED={R['seed']})\n\n"
            "`seeded/*`: breaking changes from independent sub-agents, each confirmed (must be caught by at least one claimed check); `classic/*`: the textbook breakages named in the property texts, written by the main session (some of them are also caught by the existing tests, see their meta.json); `quiet/*`: property-preserving "
            "changes (all three checks must stay quiet). Cells: exit meaning (violating runs / runs executed).\n\n"
            "| kind | id | written for | summary | C04 | C10 | C17 | first clause reported |\n|---|---|---|---|---|---|---|---|\n")
    for row in sorted(rows):
        f.write("| " + " | ".join(str(c) for c in row) + " |\n")
    s = [r for r in R["results"] if r["kind"] in ("seeded", "classic")]
    q = [r for r in R["results"] if r["kind"] == "quiet"]
    f.write("\nRows for ids up to round h, `classic/*` and `q*`/`b*` were measured with the generators as of the end of session 1; rounds i-k and `bk*` with the session-2 generators (which only add scenario dimensions). After the session-2 changes every earlier benign change was re-run against C10 and C17 (the two checks whose generators changed): 38/38 quiet.\n")
    f.write(f"\nseeded+classic: {sum(1 for r in s if r.get('detected'))}/{len(s)} detected; quiet: {sum(1 for r in q if r.get('quiet'))}/{len(q)} quiet.\n")
print("written")
