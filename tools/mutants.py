#!/venv/bin/python
"""Developer tool (not a registered check): run the quick checks against every seeded
breaking change (/verif/seeded/<id>/patch.diff -> must be detected) and every
behaviour-preserving edit (/verif/quiet/<id>/patch.diff -> must stay quiet).

Each patch is applied to a scratch worktree of /repo's HEAD under /var/tmp, the check is
run with --repo on it (evidence redirected, /verif/evidence untouched), the worktree is
removed.  Results: /verif/seeded/RESULTS.json and stdout.
"""
import json
import os
import subprocess
import sys
import time

VERIF = os.path.dirname(os.path.dirname(os.path.abspath(__file__)))
PROPS = ("C04", "C10", "C17")


def sh(cmd, **kw):
    return subprocess.run(cmd, shell=True, capture_output=True, text=True, **kw)


def run_one(kind, name, props, tier="quick", runs=None, demo=True):
    d = os.path.join(VERIF, kind, name)
    wt = f"/var/tmp/bbv-mut-{kind}-{name}"
    sh(f"git -C /repo worktree remove --force {wt}")
    r = sh(f"git -C /repo worktree add --detach {wt} HEAD")
    if r.returncode:
        return {"error": r.stderr}
    out = {"name": name, "kind": kind}
    try:
        r = sh(f"git -C {wt} apply {d}/patch.diff")
        if r.returncode:
            out["error"] = "patch does not apply: " + r.stderr[-300:]
            return out
        if demo and os.path.exists(f"{d}/demo.py"):
            r = sh(f"PYTHONPATH={wt}/src timeout 600 /venv/bin/python {d}/demo.py")
            out["demo_exit_with_patch"] = r.returncode
        env = dict(os.environ, BBV_EVIDENCE_DIR=f"/var/tmp/bbv-ev-{kind}-{name}", BBV_REPLAY_DIR=f"{VERIF}/replays/{kind}-{name}")
        for p in props:
            t0 = time.time()
            extra = f" --runs {runs}" if runs else ""
            r = subprocess.run(f"{VERIF}/check {p} --tier {tier} --repo {wt}{extra}", shell=True, capture_output=True, text=True, env=env)
            lines = [ln for ln in r.stdout.splitlines() if ln.startswith(("VIOLATION", "HARNESS", "KNOWN", "  clause="))]
            out[p] = {"exit": r.returncode, "wall": round(time.time() - t0, 1), "lines": lines[:6]}
            try:
                ev = json.load(open(f"/var/tmp/bbv-ev-{kind}-{name}/{p}.json"))
                out[p]["violating_runs"] = ev["coverage"].get("violating_runs")
                out[p]["runs"] = ev["coverage"].get("worlds") or ev["coverage"].get("evaluations")
                out[p]["timeouts"] = ev["coverage"].get("scenarios_timed_out_inconclusive")
            except Exception:
                pass
        sh(f"rm -rf /var/tmp/bbv-ev-{kind}-{name}")
    finally:
        sh(f"git -C /repo worktree remove --force {wt}")
        sh(f"rm -rf {wt}")
    return out


def main():
    args = sys.argv[1:]
    only = [a for a in args if not a.startswith("-")]
    sel = [a.split("=", 1)[1].split(",") for a in args if a.startswith("--props=")]
    kinds = [a.split("=", 1)[1].split(",") for a in args if a.startswith("--kinds=")]
    kinds = tuple(kinds[0]) if kinds else ("seeded", "classic", "quiet")
    allprops = "--all-props" in args
    tier = "thorough" if "--thorough" in args else "quick"
    results = []
    for kind in kinds:
        base = os.path.join(VERIF, kind)
        for name in sorted(os.listdir(base)) if os.path.isdir(base) else []:
            d = os.path.join(base, name)
            if not os.path.isfile(os.path.join(d, "patch.diff")):
                continue
            if only and name not in only:
                continue
            meta = {}
            if os.path.exists(os.path.join(d, "meta.json")):
                meta = json.load(open(os.path.join(d, "meta.json")))
            props = tuple(sel[0]) if sel else PROPS
            res = run_one(kind, name, props, tier=tier, demo=not sel)
            res["property"] = meta.get("property")
            if kind in ("seeded", "classic"):
                res["detected_by"] = [p for p in props if res.get(p, {}).get("exit") == 1]
                res["harness_errors"] = [p for p in PROPS if res.get(p, {}).get("exit") not in (0, 1)]
                res["detected"] = bool(res["detected_by"])
                verdict = ("DETECTED by " + ",".join(res["detected_by"])) if res["detected"] else "MISSED"
            else:
                res["quiet"] = all(res.get(p, {}).get("exit") == 0 for p in props)
                verdict = "quiet" if res["quiet"] else "FALSE-ALARM"
            print(f"{kind}/{name}: {verdict} " + " ".join(f"{p}={res[p]['exit']}({res[p]['wall']}s,{res[p].get('violating_runs')}/{res[p].get('runs')})" for p in PROPS if p in res)
                  + (f" demo_exit={res.get('demo_exit_with_patch')}" if 'demo_exit_with_patch' in res else "")
                  + (f" ERROR {res['error']}" if 'error' in res else ""), flush=True)
            for p in PROPS:
                for ln in (res.get(p, {}).get("lines") or [])[:2]:
                    print("     ", ln[:200])
            results.append(res)
    if sel:   # partial run: print only, never overwrite the recorded matrix
        bad = [r for r in results if r.get("detected") is False or r.get("quiet") is False or "error" in r]
        sys.exit(1 if bad else 0)
    rdir = os.path.join(VERIF, "seeded", ".results" if tier == "quick" else ".results-thorough")
    os.makedirs(rdir, exist_ok=True)
    for r in results:  # one file per change: parallel invocations never write the same file
        with open(os.path.join(rdir, f"{r['kind']}-{r['name']}.json"), "w") as f:
            json.dump(r, f, indent=1)
    allr = [json.load(open(os.path.join(rdir, fn))) for fn in sorted(os.listdir(rdir)) if fn.endswith(".json")]
    allr = [r for r in allr if os.path.isdir(os.path.join(VERIF, r["kind"], r["name"]))]
    with open(os.path.join(VERIF, "seeded", "RESULTS.json" if tier == "quick" else "RESULTS-thorough.json"), "w") as f:
        json.dump({"seed": os.environ.get("VERIF_SEED", "default"), "results": allr}, f, indent=1)
    bad = [r for r in results if r.get("detected") is False or r.get("quiet") is False or "error" in r]
    sys.exit(1 if bad else 0)


if __name__ == "__main__":
    main()
