#!/venv/bin/python
"""Confirm a candidate breaking change independently before keeping it under /verif/seeded:
 (a) demo exits 0 on a clean checkout of /repo HEAD, (b) patch applies and demo exits non-zero,
 (c) the 69 stable baseline tests still pass with the patch.  usage: verify_seeded.py <src_dir> <id>"""
import json, os, re, shutil, subprocess, sys
import xml.etree.ElementTree as ET

src, ident = sys.argv[1], sys.argv[2]
wt = f"/var/tmp/bbv-verify-{ident}"
def sh(c): return subprocess.run(c, shell=True, capture_output=True, text=True)
sh(f"git -C /repo worktree remove --force {wt}")
assert sh(f"git -C /repo worktree add --detach {wt} HEAD").returncode == 0
ran = []
try:
    r = sh(f"PYTHONPATH={wt}/src timeout 900 /venv/bin/python {src}/demo.py"); clean = r.returncode
    ran.append(f"demo on clean HEAD -> exit {clean}")
    r = sh(f"git -C {wt} apply {src}/patch.diff"); ran.append(f"git apply -> {r.returncode}")
    assert r.returncode == 0, r.stderr
    r = sh(f"PYTHONPATH={wt}/src timeout 900 /venv/bin/python {src}/demo.py"); patched = r.returncode
    demo_tail = (r.stdout + r.stderr)[-400:]
    ran.append(f"demo with patch -> exit {patched}")
    r = sh(f"cd {wt} && PYTHONPATH={wt}/src timeout 1500 /venv/bin/python -m pytest -q -p no:cacheprovider --timeout=900 --continue-on-collection-errors --junitxml={wt}/junit.xml")
    base = json.load(open("/root/.vp/BASELINE.json"))["stable_pass"]
    passed = set()
    for tc in ET.parse(f"{wt}/junit.xml").getroot().iter("testcase"):
        if not any(ch.tag in ("failure", "error", "skipped") for ch in tc):
            passed.add(f"{tc.get('classname')}::{tc.get('name')}")
    missing = [b for b in base if b not in passed]
    ran.append(f"baseline suite with patch -> {len(base)-len(missing)}/{len(base)} stable tests pass")
    ok = clean == 0 and patched != 0 and not missing
    print(ident, "OK" if ok else "REJECT", ran, missing[:3])
    if ok:
        dst = f"/verif/seeded/{ident}"
        os.makedirs(dst, exist_ok=True)
        shutil.copy(f"{src}/patch.diff", dst); shutil.copy(f"{src}/demo.py", dst)
        meta = json.load(open(f"{src}/meta.json"))
        meta["breaks"] = meta.get("property")
        meta["author_ran"] = meta.pop("ran", None)
        meta["confirmed_by_me"] = ran
        meta["demo_output_with_patch_tail"] = demo_tail
        json.dump(meta, open(f"{dst}/meta.json", "w"), indent=1)
finally:
    sh(f"git -C /repo worktree remove --force {wt}"); sh(f"rm -rf {wt}")
