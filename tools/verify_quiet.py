#!/venv/bin/python
"""Confirm a candidate property-preserving change before keeping it under /verif/quiet:
patch applies to /repo HEAD, the 69 stable baseline tests pass with it, its own equiv.py exits 0.
usage: verify_quiet.py <src_dir> <id>"""
import json, os, shutil, subprocess, sys
import xml.etree.ElementTree as ET
src, ident = sys.argv[1], sys.argv[2]
wt = f"/var/tmp/bbv-vq-{ident}"
def sh(c): return subprocess.run(c, shell=True, capture_output=True, text=True)
sh(f"git -C /repo worktree remove --force {wt}")
assert sh(f"git -C /repo worktree add --detach {wt} HEAD").returncode == 0
try:
    r = sh(f"git -C {wt} apply {src}/patch.diff"); assert r.returncode == 0, r.stderr
    eq = None
    if os.path.exists(f"{src}/equiv.py"):
        eq = sh(f"PYTHONPATH={wt}/src timeout 900 /venv/bin/python {src}/equiv.py").returncode
    sh(f"cd {wt} && PYTHONPATH={wt}/src timeout 1500 /venv/bin/python -m pytest -q -p no:cacheprovider --timeout=900 --continue-on-collection-errors --junitxml={wt}/junit.xml")
    base = json.load(open("/root/.vp/BASELINE.json"))["stable_pass"]
    passed = {f"{tc.get('classname')}::{tc.get('name')}" for tc in ET.parse(f"{wt}/junit.xml").getroot().iter("testcase")
              if not any(ch.tag in ("failure", "error", "skipped") for ch in tc)}
    missing = [b for b in base if b not in passed]
    ok = not missing and eq in (0, None)
    print(ident, "OK" if ok else "REJECT", f"equiv={eq}", f"baseline {len(base)-len(missing)}/{len(base)}")
    if ok:
        dst = f"/verif/quiet/{ident}"; os.makedirs(dst, exist_ok=True)
        for fn in ("patch.diff", "equiv.py"):
            if os.path.exists(f"{src}/{fn}"): shutil.copy(f"{src}/{fn}", dst)
        meta = json.load(open(f"{src}/meta.json")) if os.path.exists(f"{src}/meta.json") else {}
        meta["expect"] = "quiet (property-preserving, written by an independent sub-agent)"
        meta["confirmed_by_me"] = [f"equiv.py exit {eq}", f"baseline {len(base)-len(missing)}/{len(base)} stable tests pass"]
        json.dump(meta, open(f"{dst}/meta.json", "w"), indent=1)
finally:
    sh(f"git -C /repo worktree remove --force {wt}"); sh(f"rm -rf {wt}")
